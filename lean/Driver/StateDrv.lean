import Lean.Data.Json
import Ebu.Model.State
import Ebu.Model.StateWire
import Driver.Common
/- Line-protocol driver for M7 (materializer) and the wire-format checker of M7b. -/
namespace Driver.StateDrv
open Ebu.State Driver

structure DSt where
  strict : Bool := false
  regs : List Nat := []
  log : List Ev := []
  m : Mat := {}
  started : Bool := false

def freshMat (s : DSt) : Mat := s.regs.foldl (fun m ty => m.register ty) { strict := s.strict }

def start (s : DSt) : DSt := if s.started then s else { s with m := freshMat s, started := true }

def push (s : DSt) (msg : Msg) : DSt := { s with log := s.log ++ [⟨s.log.length + 1, msg⟩] }

def etOf (ws : List String) (dflt : Nat) : Nat :=
  match ws.find? (fun w => w.startsWith "et=") with
  | some w => nat! (w.drop 3).toString
  | none => dflt

def showCb : Cb → String
  | .onReset => "reset" | .onSnapshot true => "snap1" | .onSnapshot false => "snap0" | .onError => "error"

def sortKV (l : List (Nat × Nat)) : List (Nat × Nat) :=
  (l.toArray.qsort (fun a b => a.1 < b.1)).toList

def dump (s : DSt) : String :=
  let cols := s.regs.eraseDups.map fun ty =>
    let c := match s.m.cols.find? (fun p => p.1 == ty) with | some p => p.2 | none => []
    s!"{ty}:" ++ "{" ++ ",".intercalate ((sortKV c).map fun (k, v) => s!"{k}={v}") ++ "}"
  let cbs := if s.m.cbs.isEmpty then "-" else ",".intercalate (s.m.cbs.map showCb)
  s!"state off={s.m.lastOffset} cbs={cbs} | " ++ " ".intercalate cols

def parseOp : String → Op
  | "insert" => .insert | "update" => .update | "delete" => .delete | _ => .other
def parseCtl : String → Ctl
  | "reset" => .reset | "snapstart" => .snapStart | "snapend" => .snapEnd | _ => .other

/-- a publish op: key 0 is the empty key, which the helpers reject -/
def pub (s : DSt) (key : Nat) (msg : Msg) : DSt × Option String :=
  if key = 0 then (s, some "helper-error") else (push s msg, some "pub")

def step (s0 : DSt) (line : String) : DSt × Option String :=
  match words line with
  | ["strict", b] => ({ s0 with strict := bool! b }, none)
  | "store" :: _ => (s0, none)
  | ws =>
    let s := start s0
    match ws with
    | ["reg", ty] => ({ s with regs := s.regs ++ [nat! ty], m := s.m.register (nat! ty) }, some "reg")
    | "ins" :: ty :: key :: val :: opts =>
      let t := nat! ty
      if t = 5 then pub s (nat! key) (.change (etOf opts 4) (nat! key) .insert 0 false)
      else pub s (nat! key) (.change (etOf opts (if t ≤ 3 then t else 4)) (nat! key) .insert (nat! val) true)
    | "upd" :: ty :: key :: val :: opts => pub s (nat! key) (.change (etOf opts (nat! ty)) (nat! key) .update (nat! val) true)
    | "updold" :: ty :: key :: val :: _old :: opts => pub s (nat! key) (.change (etOf opts (nat! ty)) (nat! key) .update (nat! val) true)
    | "del" :: ty :: key :: opts => pub s (nat! key) (.change (etOf opts (if nat! ty ≤ 3 then nat! ty else 4)) (nat! key) .delete 0 true)
    | "delold" :: ty :: key :: _ => pub s (nat! key) (.change (nat! ty) (nat! key) .delete 0 true)
    | "ctl" :: k :: _ => (push s (.control (parseCtl k)), some "pub")
    | "raw" :: "garbage" :: _ => (push s .garbage, some "pub")
    | "raw" :: "control" :: k :: _ => (push s (.control (parseCtl k)), some "pub")
    | "raw" :: "change" :: ty :: key :: op :: val :: ok :: _ =>
      (push s (.change (nat! ty) (nat! key) (parseOp op) (nat! val) (bool! ok)), some "pub")
    | ["replay"] =>
      let (m', err) := s.m.replay (after s.m.lastOffset s.log)
      let s := { s with m := m' }
      (s, some ((if err then "replay err" else "replay ok") ++ "\n" ++ dump s))
    | ["fresh"] => ({ s with m := freshMat s }, some "fresh")
    | "fuzz" :: _ => (s, some "fuzz ok")
    | _ => (s, some ("bad-op " ++ line))

def runCase (lines : Array String) : Array String := Id.run do
  let mut s : DSt := {}
  let mut out := #[]
  for l in lines do
    let (s', o) := step s l
    s := s'
    if let some o := o then
      for part in o.splitOn "\n" do out := out.push part
  return out

/-! wire-format checker: each line is `<abstract message> | <base64 JSON>` as printed by the harness -/

open Ebu.StateWire Lean

def b64val (c : Char) : Option Nat :=
  if 'A' ≤ c ∧ c ≤ 'Z' then some (c.toNat - 65)
  else if 'a' ≤ c ∧ c ≤ 'z' then some (c.toNat - 97 + 26)
  else if '0' ≤ c ∧ c ≤ '9' then some (c.toNat - 48 + 52)
  else if c = '+' then some 62 else if c = '/' then some 63 else none

def b64decode (s : String) : String := Id.run do
  let mut acc : Nat := 0
  let mut bits : Nat := 0
  let mut out : ByteArray := ByteArray.empty
  for c in s.toList do
    match b64val c with
    | none => pure ()
    | some v =>
      acc := acc * 64 + v
      bits := bits + 6
      if bits ≥ 8 then
        bits := bits - 8
        out := out.push (UInt8.ofNat ((acc >>> bits) % 256))
        acc := acc % (2 ^ bits)
  return (String.fromUTF8? out).getD "?"

def leafOf (j : Json) : Leaf :=
  match j with
  | .null => .null
  | .str s => .str s
  | .bool b => .bool b
  | .num n => if n.exponent = 0 then .num n.mantissa else .doc 0
  | _ => .doc 0

def docOf (j : Json) : Doc :=
  match j with
  | .null => .null
  | .obj kvs =>
    .obj (kvs.toList.map fun (k, v) =>
      match v with
      | .obj hs => if fold k == "headers" then (k, Val.obj (hs.toList.map fun (hk, hv) => (hk, leafOf hv))) else (k, Val.leaf (.doc 0))
      | v => (k, Val.leaf (leafOf v)))
  | _ => .notObject

def optS (s : String) : String := if s == "-" then "" else s

/-- field order is not part of the contract (Lean's Json objects are ordered maps): compare as sorted lists -/
def canonDoc : Doc → Doc
  | .obj fs => .obj ((fs.toArray.qsort (fun a b => a.1 < b.1)).toList.map fun (k, v) =>
      match v with
      | .obj hs => (k, .obj (hs.toArray.qsort (fun a b => a.1 < b.1)).toList)
      | v => (k, v))
  | d => d

def wireLine (line : String) : String :=
  match line.splitOn " | " with
  | [lhs, b64] =>
    match Json.parse (b64decode b64.trimAscii.toString) with
    | .error e => "FAIL not-json " ++ e
    | .ok j =>
      let got := docOf j
      match words lhs with
      | ["change", ty, key, op, hasV, hasO, tx, ts] =>
        let m : Change := { ty := b64decode ty, key := b64decode key, op := op, value := if bool! hasV then some 0 else none,
                            old := if bool! hasO then some 0 else none, txid := optS tx, ts := optS ts }
        if canonDoc got == canonDoc (encodeChange m) then
          (if decode got == .change m.ty m.key m.op (m.value.map Leaf.doc) then "ok" else "FAIL decode")
        else "FAIL change wire format differs from the state-protocol encoding"
      | ["control", k, off] =>
        let m : Control := { control := k, offset := optS off }
        if canonDoc got == canonDoc (encodeControl m) then
          (if decode got == .control k then "ok" else "FAIL decode")
        else "FAIL control wire format differs from the state-protocol encoding"
      | _ => "FAIL bad-line"
  | _ => "FAIL bad-line"

def runWire (lines : Array String) : Array String := lines.map wireLine

end Driver.StateDrv

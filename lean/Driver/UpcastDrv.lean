import Ebu.Model.Upcast
import Driver.Common
/- Line-protocol driver for M6 (upcast registry). -/
namespace Driver.UpcastDrv
open Ebu.Upcast Driver

structure DSt where
  g : Graph := []
  errH : Bool := false
  last : Option Stored := none       -- the stored event of the last `replay` (a replay never changes it)

def showCalls (l : List (Nat × List Nat)) : String :=
  if l.isEmpty then "-" else ";".intercalate (l.map fun (t, d) => s!"{t}:{showNatList d}")

def showErr : Option ApplyErr → String
  | none => "ok"
  | some .loop => "err:loop"
  | some (.failed s d) => s!"err:failed:{s}:{d}"
  | some .fuel => "err:FUEL"

def step (s : DSt) (line : String) : DSt × String :=
  match words line with
  | ["errh", b] => ({ s with errH := bool! b }, "errh")
  | ["opterrh"] => ({ s with errH := true }, "opterrh")
  | ["reg", src, dst, ret, fails, tag, nil] =>
    let u : Upcaster := ⟨nat! src, nat! dst, nat! ret, bool! fails, nat! tag⟩
    match register s.g u (bool! nil) with
    | .ok g => ({ s with g := g }, "reg ok")
    | .error .empty => (s, "reg err empty")
    | .error .self => (s, "reg err self")
    | .error .nilFn => (s, "reg err nil")
    | .error .cycle => (s, "reg err cycle")
    | .error .fuel => (s, "reg err FUEL")
  | ["optreg", src, dst, ret, fails, tag] =>
    -- an upcaster given as a `WithUpcast` option: registered like any other, a refusal is silent
    match register s.g ⟨nat! src, nat! dst, nat! ret, bool! fails, nat! tag⟩ false with
    | .ok g => ({ s with g := g }, "optreg")
    | .error _ => (s, "optreg")
  | ["racereg", _] => (s, "racereg ok")
  | ["clear"] => ({ s with g := clear s.g }, "clear")
  | ["cleartype", t] => ({ s with g := clearType s.g (nat! t) }, "cleartype")
  | ["replayagain"] =>
    match s.last with
    | none => (s, "replayagain skip")
    | some st =>
      let (e, r) := upcastStored s.g s.errH st
      let s := if r.calls.any (fun c => c.1 ≥ 200) then { s with g := clear s.g } else s
      (s, s!"seen off={e.off} ts={e.ts} ty={e.ty} data={showNatList e.data} opt={e.opt} calls={showCalls r.calls} errh={showCalls r.errCalls}")
  | ["replay", off, ts, ty, d, opt] =>
    if d.endsWith "!" then
      -- the stored payload is a JSON value followed by garbage.  A typed upcaster (registered with RegisterUpcast: both
      -- names are Go types, it returns its declared target, does not fail, and is not one of the racing raw ones) cannot
      -- decode it, so its step fails before the function is called.  A RAW upcaster is handed the bytes as they are; the
      -- harness's raw functions decode leniently (no tags, no optional part), so from a raw first step on the chain
      -- goes on over well-formed data, and only a failure of that first step still concerns the garbage
      let typed (u : Upcaster) : Bool := decide (u.src ≥ 100) && decide (u.dst ≥ 100) && u.ret == u.dst && !u.fails && decide (u.tag < 200)
      let dd := d.dropRight 1
      let showD (l : List Nat) : String := showNatList l ++ "!"
      let first := s.g.find? (fun u => u.src == nat! ty)
      match first with
      | some u0 =>
        if typed u0 then
          let g' := s.g.map (fun u => if typed u then { u with fails := true } else u)
          let (e, r) := upcastStored g' s.errH ⟨nat! off, nat! ts, nat! ty, natList dd, nat! opt⟩
          (s, s!"seen off={e.off} ts={e.ts} ty={e.ty} data={showD e.data} opt={e.opt} calls=- errh={if r.errCalls.isEmpty then "-" else ";".intercalate (r.errCalls.map fun (t, dl) => s!"{t}:{showD dl}")}")
        else
          let (e, r) := upcastStored s.g s.errH ⟨nat! off, nat! ts, nat! ty, [], 0⟩
          let s := if r.calls.any (fun c => c.1 ≥ 200) then { s with g := clear s.g } else s
          let errS := if r.errCalls.isEmpty then "-" else ";".intercalate (r.errCalls.map fun (t, dl) =>
            if t == nat! ty then s!"{t}:{showD (natList dd)}" else s!"{t}:{showNatList dl}")
          if e.ty == nat! ty then
            -- the chain failed (the original event, garbage and all, is what the callback sees)
            (s, s!"seen off={e.off} ts={e.ts} ty={e.ty} data={showD (natList dd)} opt={nat! opt} calls={showCalls r.calls} errh={errS}")
          else
            (s, s!"seen off={e.off} ts={e.ts} ty={e.ty} data={showNatList e.data} opt={e.opt} calls={showCalls r.calls} errh={errS}")
      | none =>
        (s, s!"seen off={off} ts={ts} ty={ty} data={showD (natList dd)} opt={opt} calls=- errh=-")
    else
    let s := { s with last := some ⟨nat! off, nat! ts, nat! ty, natList d, nat! opt⟩ }
    let (e, r) := upcastStored s.g s.errH ⟨nat! off, nat! ts, nat! ty, natList d, nat! opt⟩
    -- an upcaster with tag ≥ 200 starts a concurrent ClearUpcasts when it is invoked: the chain is applied against
    -- the registry as it was, the clear takes effect afterwards
    let s := if r.calls.any (fun c => c.1 ≥ 200) then { s with g := clear s.g } else s
    (s, s!"seen off={e.off} ts={e.ts} ty={e.ty} data={showNatList e.data} opt={e.opt} calls={showCalls r.calls} errh={showCalls r.errCalls}")
  | _ => (s, "bad-op " ++ line)

def runCase (lines : Array String) : Array String := Id.run do
  let mut s : DSt := {}
  let mut out := #[]
  for l in lines do
    let (s', o) := step s l
    s := s'
    out := out.push o
  return out

end Driver.UpcastDrv

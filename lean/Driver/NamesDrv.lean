import Ebu.Model.TypeName
import Driver.Common
namespace Driver.NamesDrv
open Ebu.TypeName Driver

def line (k : Nat) (s : Shape) : String :=
  let p := routeName .persisted s
  let pa := routeName .storedAfterReplay s
  s!"shape {k} stored={p} eventtype={routeName .eventTypeFn s} replayed={b01 (routeName .replaySub s == p)} upfrom={b01 (routeName .upcastFrom s == p)} upto={routeName .upcastTo s} storedafter={pa} replayedafter={b01 (routeName .replaySub s == pa)} kept={p} second={b01 (p == routeName .eventTypeFn s)}"

def runCase (lines : Array String) : Array String :=
  lines.map fun l =>
    match words l with
    | ["shape", k] =>
      match shapes[nat! k]? with
      | some s => line (nat! k) s
      | none => "bad-op " ++ l
    | _ => "bad-op " ++ l

end Driver.NamesDrv

import Ebu.Model.Resume
import Driver.Common
namespace Driver.ResumeDrv
open Ebu.Resume Driver

def optNat (s : String) : Option Nat := if s == "-" then none else some (nat! s)

def parsePD (s : String) : Option (Nat × Nat) :=
  if s == "-" then none else
  match s.splitOn ":" with
  | [a, b] => some (nat! a, nat! b)
  | _ => none

def runCase (lines : Array String) : Array String := Id.run do
  let mut plan : Plan := {}
  let mut s : RS := {}
  let mut out := #[]
  let mut ids : List Nat := []
  let mut split := false
  for l in lines do
    match words l with
    | ["kind", k] => split := k.endsWith "+sub" || k.endsWith "+bus"
    | "kind" :: _ => pure ()
    | ["plan", f, c] => plan := { failAt := optNat f, crashAfter := optNat c }
    | ["pub", ty, r] =>
      s := stepOp plan s (.publish (nat! ty) (nat! r))
      out := out.push "pub"
    | "sub" :: id :: ty :: rest =>
      let pd := match rest with | [x] => parsePD x | _ => none
      let before := s
      let raw := subscribe plan s (nat! id) (nat! ty) pd
      s := stepOp plan before (.subscribe (nat! id) (nat! ty) pd)
      if !ids.contains (nat! id) then ids := ids ++ [nat! id]
      out := out.push (if raw.dead then "sub died" else if raw.errs.length > before.errs.length then "sub err" else "sub ok")
    | ["racepub", _, _] => out := out.push "racepub ok"
    | ["cancelresume", _, _, _] => out := out.push "cancelresume ok"
    | ["livechain", _, _, _] => out := out.push "livechain ok"
    | ["panicresume", _, _, _] => out := out.push "panicresume ok"
    | ["livepanic", _, _, _, _] => out := out.push "livepanic ok"
    | ["restart"] =>
      s := stepOp plan s .restart
      out := out.push "restart"
    | _ => out := out.push ("bad-op " ++ l)
  let sorted := (ids.toArray.qsort (· < ·)).toList
  for id in sorted do
    let d := (s.delivered.filter (fun p => p.1 == id)).map (·.2)
    out := out.push s!"id {id} saved={savedOf s id} delivered={showNatList d}"
    -- an explicit subscription store takes every offset; the event store's own offset table stays empty
    if split then out := out.push s!"evstore-saved {id} 0"
  let logS := if s.log.isEmpty then "-" else ",".intercalate (s.log.map fun (t, r) => s!"{t}:{r}")
  out := out.push ("log " ++ logS)
  out := out.push s!"nops {s.nops}"
  return out

end Driver.ResumeDrv

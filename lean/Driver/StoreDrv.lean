import Ebu.Model.Replay
import Driver.Common
/- Line-protocol driver for M3/M4 (stores and Replay). -/
namespace Driver.StoreDrv
open Ebu.Log Ebu.Replay Driver

inductive Inst
  | mem (m : Mem)
  | sql (s : Sql)
  | ds (d : Ds)

structure DSt where
  kind : String := "mem"
  batch : Nat := 0
  chunk : Nat := 0
  insts : List (Nat × Inst × List Off) := []     -- instance number, state, offsets returned by its appends
  cur : Nat := 0
  lastEvs : List (Off × Rec) := []
  lastNext : Off := []
  buses : List Nat := []          -- instances that have a publishing bus (created by the first pub / replaypub / pubflaky)

def offToString (o : Off) : String := String.mk (o.map (fun b => Char.ofNat b))
def offOfString (s : String) : Off := s.toUTF8.toList.map (·.toNat)

def newInst (s : DSt) : Inst :=
  match s.kind with
  | "sqlite" => .sql {}
  | "ds" => .ds { chunk := if s.chunk = 0 then 1000000 else s.chunk }
  | _ => .mem {}

def getInst (s : DSt) : Inst × List Off :=
  match s.insts.find? (fun p => p.1 == s.cur) with
  | some (_, i, offs) => (i, offs)
  | none => (newInst s, [])

def setInst (s : DSt) (i : Inst) (offs : List Off) : DSt :=
  { s with insts := (s.cur, i, offs) :: s.insts.filter (fun p => p.1 != s.cur) }

def resolveOff (s : DSt) (tok : String) : Option Off :=
  if tok == "-" then some []
  else if tok == "@next" then some s.lastNext
  else if tok.startsWith "@e" then (s.lastEvs[nat! (tok.drop 2).toString]?).map (·.1)
  else if tok.startsWith "@a" then (getInst s).2[nat! (tok.drop 2).toString]?
  else if tok.startsWith "=" then some (offOfString (tok.drop 1).toString)
  else none

def showRecs (l : List (Off × Rec)) : String :=
  if l.isEmpty then "-" else ",".intercalate (l.map (fun e => toString e.2))
def showOffs (l : List (Off × Rec)) : String :=
  if l.isEmpty then "-" else ";".intercalate (l.map (fun e => offToString e.1))

def int! (s : String) : Int := if s.startsWith "-" then -((nat! (s.drop 1).toString : Nat) : Int) else (nat! s : Int)
def optNat (s : String) : Option Nat := if s == "-" then none else some (nat! s)

def instRead (i : Inst) (o : Off) (limit : Int) : Option (List (Off × Rec) × Off) :=
  match i with
  | .mem m => some (m.read o limit)
  | .sql q => q.read o limit
  | .ds d => d.read o limit

def step (s : DSt) (line : String) : DSt × Option String :=
  match words line with
  | "kind" :: k :: rest =>
    let s := { s with kind := k }
    let s := rest.foldl (fun s kv =>
      if kv.startsWith "batch=" then { s with batch := nat! (kv.drop 6).toString }
      else if kv.startsWith "chunk=" then { s with chunk := nat! (kv.drop 6).toString }
      else s) s
    (s, none)
  | ["raceappend", _, _] => (s, some "raceappend ok")
  | ["use", n] => ({ s with cur := nat! n, lastEvs := [], lastNext := [] }, some "use")
  | ["append", r] =>
    let (i, offs) := getInst s
    let (i', off) : Inst × Off := match i with
      | .mem m => let (m', o) := m.append (nat! r); (.mem m', o)
      | .sql q => let (q', o) := q.append (nat! r); (.sql q', o)
      | .ds d => let (d', o) := d.append (nat! r); (.ds d', o)
    (setInst s i' (offs ++ [off]), some ("append " ++ offToString off))
  | ["pub", r] =>
    -- a publish through a bus on top of the store: one record appended, visible to the handler of that publish
    let s := { s with buses := s.cur :: s.buses }
    let (i, offs) := getInst s
    let (i', n) : Inst × Nat := match i with
      | .mem m => let m' := (m.append (nat! r)).1; (.mem m', m'.events.length)
      | .sql q => let q' := (q.append (nat! r)).1; (.sql q', q'.rows.length)
      | .ds d => let d' := (d.append (nat! r)).1; (.ds d', d'.msgs.length)
    (setInst s i' offs, some s!"pub n={n} last={r}")
  | ["replaypub", r] =>
    -- the same publish made from the callback of a Replay over a non-empty log (which the callback then stops)
    let s := { s with buses := s.cur :: s.buses }
    let (i, offs) := getInst s
    let len : Nat := match i with | .mem m => m.events.length | .sql q => q.rows.length | .ds d => d.msgs.length
    if len = 0 then (s, some "replaypub none")
    else
      let (i', n) : Inst × Nat := match i with
        | .mem m => let m' := (m.append (nat! r)).1; (.mem m', m'.events.length)
        | .sql q => let q' := (q.append (nat! r)).1; (.sql q', q'.rows.length)
        | .ds d => let d' := (d.append (nat! r)).1; (.ds d', d'.msgs.length)
      (setInst s i' offs, some s!"replaypub n={n} last={r}")
  | ["drop", n] =>
    (if nat! n == s.cur then s else { s with insts := s.insts.filter (fun p => p.1 != nat! n), buses := s.buses.filter (· != nat! n) }, some "drop")
  | ["pubhookpanic", _] =>
    -- a before-publish hook panics: the publish is aborted before anything is recorded or delivered
    ({ s with buses := s.cur :: s.buses }, some "pubhookpanic aborted")
  | ["pubdead", r] =>
    -- a publish with a context that is already over: recorded by the memory store (which does not look at contexts), refused
    -- by the SQLite store (one failure report); no handler runs either way
    let s := { s with buses := s.cur :: s.buses }
    let (i, offs) := getInst s
    match i with
    | .mem m => let m' := (m.append (nat! r)).1; (setInst s (.mem m') offs, some s!"pubdead n={m'.events.length} perr=0 handler=0")
    | .sql q => (s, some s!"pubdead n={q.rows.length} perr=1 handler=0")
    | .ds _ => (s, some "pubdead skip")
  | ["pubdeadnotify", r] =>
    -- like pubdead, but the persistence error handler publishes record r+1 on the same bus (with a live context): the
    -- memory store records r and reports nothing; the SQLite store refuses r (one report), then r+1 is recorded and
    -- delivered – the handler of r+1 sees the log ending in r+1
    let s := { s with buses := s.cur :: s.buses }
    let (i, offs) := getInst s
    match i with
    | .mem m => let m' := (m.append (nat! r)).1; (setInst s (.mem m') offs, some s!"pubdeadnotify n={m'.events.length} perr=0 seen=handler-not-run")
    | .sql q => let q' := (q.append (nat! r + 1)).1; (setInst s (.sql q') offs, some s!"pubdeadnotify n={q'.rows.length} perr=1 seen=n={q'.rows.length},last={nat! r + 1}")
    | .ds _ => (s, some "pubdeadnotify skip")
  | ["pubflaky", r] =>
    -- durable-streams only: the server stores the event, the acknowledgement is lost: one record, one failure report
    let s := { s with buses := s.cur :: s.buses }
    let (i, offs) := getInst s
    match i with
    | .ds d => let d' := (d.append (nat! r)).1; (setInst s (.ds d') offs, some s!"pubflaky n={d'.msgs.length} last={r} perr=1")
    | _ => (s, some "pubflaky unsupported")
  | ["streamtwice", f] =>
    let i := (getInst s).1
    match i, resolveOff s f with
    | .ds _, _ => (s, some "streamtwice skip")
    | _, none => (s, some "streamtwice skip")
    | .mem m, some o => (s, some s!"streamtwice n={(m.stream o).length} same=1")
    | .sql q, some o =>
      match sqlParse o with
      | none => (s, some "streamtwice n=0 same=1")
      | some pos => (s, some s!"streamtwice n={(q.select pos none).length} same=1")
  | ["appenddead", r] =>
    -- the memory store does not look at the context; the SQLite store refuses (database/sql checks it first)
    let (i, offs) := getInst s
    match i with
    | .mem m => let (m', o) := m.append (nat! r); (setInst s (.mem m') (offs ++ [o]), some ("appenddead " ++ offToString o))
    | .sql _ => (s, some "appenddead err")
    | .ds _ => (s, some "appenddead skip")
  | ["appendnil"] =>
    match (getInst s).1 with
    | .sql _ => (s, some "appendnil err")
    | _ => (s, some "appendnil skip")
  | ["busreplay", f] =>
    -- Replay on the instance's own bus (exists once something was published through it): everything after `from`
    let i := (getInst s).1
    let hasBus := s.buses.contains s.cur
    match resolveOff s f with
    | none => (s, some "busreplay skip")
    | some o =>
      if !hasBus then (s, some "busreplay skip") else
      let r : Result := match i with
        | .mem m => replayStream {} (m.stream o)
        | .sql q => match sqlParse o with
          | none => ⟨[], some .stream, []⟩
          | some pos => replayStream {} ((q.select pos none).map (fun row => (decimal row.1, row.2)))
        | .ds _ => replayPaged (instRead i) {} (effBatch 0) 100000 0 o []
      let endS := match r.err with | none => "nil" | some _ => "err"
      (s, some s!"busreplay end={endS} recs={showRecs r.delivered}")
  | ["nestedreplay"] =>
    let recs : List (Off × Rec) := match (getInst s).1 with
      | .mem m => m.events | .sql q => q.rows.map (fun row => (decimal row.1, row.2)) | .ds d => d.msgs.map (fun r => ([], r))
    (s, some s!"nestedreplay end=nil outer={showRecs recs} inner={showRecs (recs.drop 1)}")
  | ["read", f, l] =>
    match resolveOff s f with
    | none => (s, some "read skip")
    | some o =>
      match instRead (getInst s).1 o (int! l) with
      | none => (s, some "read err")
      | some (evs, next) =>
        ({ s with lastEvs := evs, lastNext := next },
         some s!"read ok recs={showRecs evs} offs={showOffs evs} next={offToString next}")
  | ["save", id, f] =>
    let (i, offs) := getInst s
    match i with
    | .ds _ => (s, some "save unsupported")
    | .mem m =>
      match resolveOff s f with
      | none => (s, some "save skip")
      | some o => (setInst s (.mem (m.save id o)) offs, some "save ok")
    | .sql q =>
      match resolveOff s f with
      | none => (s, some "save skip")
      | some o =>
        match q.save id o with
        | none => (s, some "save err")
        | some q' => (setInst s (.sql q') offs, some "save ok")
  | ["load", id] =>
    match (getInst s).1 with
    | .ds _ => (s, some "load unsupported")
    | .mem m => (s, some ("load " ++ offToString (m.load id)))
    | .sql q => (s, some ("load " ++ offToString (q.load id)))
  | ["replay", f, bs, paged, cbf, can, rdf] =>
    match resolveOff s f with
    | none => (s, some "replay skip")
    | some o =>
      let i := (getInst s).1
      let faults : Faults := { cbFail := optNat cbf, cancelAt := optNat can, readFail := optNat rdf }
      let fuel := 100000
      let pagedRes := replayPaged (instRead i) faults (effBatch (int! bs)) fuel 0 o []
      let r : Result :=
        if bool! paged then pagedRes
        else match i with
          | .mem m => replayStream { faults with readFail := none } (m.stream o)
          | .sql q =>
            match sqlParse o with
            | none => ⟨[], some .stream, []⟩
            | some pos =>
              if s.batch = 0 then replayStream { faults with readFail := none } ((q.select pos none).map (fun row => (decimal row.1, row.2)))
              else replaySqlBatched q { faults with readFail := none } s.batch fuel pos []
          | .ds _ => pagedRes
      let endS := match r.err with | none => "nil" | some _ => "err"
      let mayS := if r.may.isEmpty then "" else " may=" ++ showRecs r.may
      -- SQLite only: a cancellation during the very last rows may go unnoticed by the driver
      let complete : List (Off × Rec) := match i with
        | .sql q => match sqlParse o with
          | some pos => (q.select pos none).map (fun row => (decimal row.1, row.2))
          | none => []
        | _ => []
      let isSql := match i with | .sql _ => true | _ => false
      let mayS := if isSql && !(bool! paged) && faults.cancelAt.isSome && r.err.isSome && r.delivered ++ r.may == complete
                  then mayS ++ " ornil=1" else mayS
      (s, some s!"replay end={endS} recs={showRecs r.delivered} appends=0 handlers=0{mayS}")
  | _ => (s, some ("bad-op " ++ line))

def runCase (lines : Array String) : Array String := Id.run do
  let mut s : DSt := {}
  let mut out := #[]
  for l in lines do
    let (s', o) := step s l
    s := s'
    if let some o := o then out := out.push o
  return out

end Driver.StoreDrv

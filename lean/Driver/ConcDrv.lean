import Ebu.Model.Conc
import Driver.Common
/- Driver for M2: runs the interleaving model under a seeded scheduler and prints the schedule it chose
together with what every step must make observable. -/
namespace Driver.ConcDrv
instance : Inhabited Ebu.Conc.Thread := ⟨{}⟩
open Ebu.Conc Driver

def parseFilt (s : String) : Option (Nat × Nat) :=
  if s == "-" then none else
  match s.splitOn ":" with
  | [m, r] => some (nat! m, nat! r)
  | _ => none

/-- body syntax: "-" or "ty:v,ty:v" -/
def parseBody (s : String) : List (Nat × Nat) :=
  if s == "-" then [] else (s.splitOn ",").filterMap fun p =>
    match p.splitOn ":" with
    | [a, b] => some (nat! a, nat! b)
    | _ => none

def parseCtx (s : String) : Ctx := if s == "bg" then .bg else .shared (nat! s)

def parseOp (ws : List String) : Option Op :=
  match ws with
  | ["sub", ty, hid, once, async, seq, filt, body] =>
    some (.subscribe (nat! ty) (nat! hid) (bool! once) (bool! async) (bool! seq) (parseFilt filt) (parseBody body))
  | ["unsub", ty, hid] => some (.unsubscribe (nat! ty) (nat! hid))
  | ["clear", ty] => some (.clear (nat! ty))
  | ["pub", ty, v, ctx] => some (.publish (nat! ty) (nat! v) (parseCtx ctx))
  | ["cancel", k] => some (.cancel (nat! k))
  | ["wait"] => some .wait
  | ["count", ty] => some (.count (nat! ty))
  | _ => none

def pcLabel : Pc → String
  | .op => "op" | .snap => "snap" | .filter r => s!"filter:{r.rid}" | .claimed _ => "claimed"
  | .spawn _ n _ => s!"spawn:{n}" | .lock _ _ => "lock" | .enter r => s!"enter:{r.rid}" | .exit r => s!"exit:{r.rid}"
  | .retire => "retire" | .retired => "retired" | .astart => "astart" | .turn => "turn" | .aend => "aend" | .done => "done"

def showObs : Obs → String
  | .filt rid v ok => s!"filt:{rid}:{v}:{b01 ok}"
  | .enter rid ty v a => s!"enter:{rid}:{ty}:{v}:{b01 a}"
  | .exit rid => s!"exit:{rid}"
  | .count ty n => s!"count:{ty}:{n}"
  | .unsub ty hid ok => s!"unsub:{ty}:{hid}:{b01 ok}"
  | .spawned n => s!"spawned:{n}"
  | .ret => "ret"
  | .fin => "fin"

structure Sim where
  sh : Shared := {}
  ths : Array Thread := #[]
  armed : Array Bool := #[]
  rng : Nat := 1
  probePct : Nat := 15
  out : Array String := #[]

def nextRand (s : Sim) : Sim × Nat :=
  let r := (s.rng * 6364136223846793005 + 1442695040888963407) % 18446744073709551616
  ({ s with rng := r }, r / 4294967296)

/-- the resource a blocked thread waits for (to allow at most one armed waiter per mutex / turn) -/
def resourceOf (th : Thread) : Option (Nat × Nat) :=
  match th.pc with
  | .lock r _ => some (0, r.rid)
  | .turn => th.job.map (fun j => (1, j.reg.rid))
  | _ => none

def isFinished (th : Thread) : Bool := th.pc == .done

partial def simulate (s : Sim) (budget : Nat) : Sim :=
  if budget = 0 then { s with out := s.out.push "!budget" } else
  let idx := List.range s.ths.size
  let enabledIdx := idx.filter (fun i => enabled s.sh s.ths[i]!)
  -- forced moves: an armed thread that became enabled runs first (lowest id first)
  let forced := enabledIdx.filter (fun i => s.armed[i]!)
  let doStep (s : Sim) (i : Nat) (forcedStep : Bool := false) : Sim :=
    match step s.sh s.ths[i]! with
    | none => { s with out := s.out.push s!"!step-none {i}" }
    | some o =>
      let firstNew := s.ths.size
      let ths := (s.ths.set! i o.th) ++ o.new.toArray
      let armed := (s.armed.set! i false) ++ (o.new.map (fun _ => false)).toArray
      let news := (List.range o.new.length).map (fun k => s!"new:{firstNew + k}")
      let kw := if forcedStep then "fstep" else "step"
      let line := s!"{kw} {i} at={pcLabel o.th.pc} " ++ " ".intercalate (o.obs.map showObs ++ news)
      { s with sh := o.sh, ths := ths, armed := armed, out := s.out.push line.trimAscii.toString }
  match forced with
  | i :: _ => simulate (doStep s i true) (budget - 1)
  | [] =>
    if enabledIdx.isEmpty then
      if s.ths.all isFinished then { s with out := s.out.push "end" }
      else { s with out := s.out.push "deadlock" }
    else
      let (s, r) := nextRand s
      -- maybe probe a blocked thread
      let blocked := idx.filter (fun i => !(enabled s.sh s.ths[i]!) && !(isFinished s.ths[i]!) && !(s.armed[i]!))
      let armedRes := (idx.filter (fun i => s.armed[i]!)).filterMap (fun i => resourceOf s.ths[i]!)
      let probeable := blocked.filter (fun i => match resourceOf s.ths[i]! with
        | some res => !armedRes.contains res
        | none => true)
      if r % 100 < s.probePct && !probeable.isEmpty then
        let (s, r2) := nextRand s
        let i := probeable[r2 % probeable.length]!
        simulate { s with armed := s.armed.set! i true, out := s.out.push s!"probe {i} blocked" } (budget - 1)
      else
        let (s, r2) := nextRand s
        let i := enabledIdx[r2 % enabledIdx.length]!
        simulate (doStep s i) (budget - 1)

def runCase (lines : Array String) : Array String := Id.run do
  let mut s : Sim := {}
  let mut progs : Array (List Op) := #[]
  let mut bad : Array String := #[]
  for l in lines do
    match words l with
    | ["seed", n] => s := { s with rng := nat! n + 1 }
    | ["probe", p] => s := { s with probePct := nat! p }
    | "thread" :: _ => progs := progs.push []
    | "sched" :: _ => pure ()
    | ws =>
      match parseOp ws with
      | some op =>
        if progs.isEmpty then progs := progs.push []
        progs := progs.modify (progs.size - 1) (· ++ [op])
      | none => bad := bad.push ("bad-op " ++ l)
  s := { s with ths := progs.map (fun p => { prog := p }), armed := progs.map (fun _ => false) }
  let r := simulate s 5000
  return bad ++ r.out

end Driver.ConcDrv

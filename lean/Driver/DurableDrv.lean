import Ebu.Model.Durable
import Driver.Common
namespace Driver.DurableDrv
open Ebu.Durable Driver

def runCase (lines : Array String) : Array String :=
  lines.map fun l =>
    match words l with
    | "kill" :: _ => "kill done"
    | ["reopen"] => "reopen same=1"
    | "append" :: _ => "append larger=1"
    | ["busyappend"] => "busyappend refused"
    | ["concappend", _, _] => "concappend ok"
    | ["saveretry"] => "saveretry ok"
    | ["saveback"] => "saveback ok"
    | ["twohandles"] => "twohandles ok"
    | ["appendnil"] => "appendnil refused"
    | _ => "bad-op " ++ l

def kvOf (ws : List String) (k : String) : String :=
  match ws.find? (fun w => w.startsWith (k ++ "=")) with
  | some w => (w.drop (k.length + 1)).toString
  | none => ""

/-- judge one `recovered …` line of the kill harness with the model's predicate -/
def judge (line : String) : String :=
  let ws := words line
  let acked := natList (kvOf ws "acked")
  let recs := natList (kvOf ws "recs")
  let poss := natList (kvOf ws "poss")
  let inflight := nat! (kvOf ws "inflight")
  let savedAck := nat! (kvOf ws "savedack")
  let saved := nat! (kvOf ws "saved")
  if !recoveredOk acked recs poss (some inflight) then
    "FAIL recovered log is not the acknowledged events (+ at most the one in flight), gap-free and in order"
  else if saved < savedAck then "FAIL an acknowledged SaveOffset was lost"
  else if saved > recs.length then "FAIL saved offset beyond the log"
  else "ok"

def runJudge (lines : Array String) : Array String := lines.map judge

end Driver.DurableDrv

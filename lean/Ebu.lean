import Ebu.Model.Upcast
import Ebu.Model.Bus
import Ebu.Spec.Bus

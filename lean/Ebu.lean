import Ebu.Model.Upcast

#!/bin/bash
# Runs the repository's own pinned suite (the four modules of BASELINE.json) with NO build tag.
# Prints one summary line per module and "BASELINE pass=<n> fail=<n>"; exit 0 iff no test failed.
export GOFLAGS=-mod=mod GOPROXY=off
unset GOSUMDB
REPO=${REPO:-/repo}
tot_pass=0; tot_fail=0
for m in . otel stores/durablestream stores/sqlite; do
  out=$(cd "$REPO/$m" && go test -json -vet=off -count=1 -timeout 6m ./... 2>&1)
  # the repository's own TestAsyncSequentialHandlerContextCancelled can hang (its handler sends three times on an unbuffered
  # channel that is read once; seen on the pinned commit under load, with and without the verif tag): a run that ends in
  # "test timed out" in that test is repeated once
  if printf '%s\n' "$out" | grep -q 'panic: test timed out' && printf '%s\n' "$out" | grep -q 'TestAsyncSequentialHandlerContextCancelled'; then
    echo "module=$m: the repository's flaky TestAsyncSequentialHandlerContextCancelled hung; running the module again"
    out=$(cd "$REPO/$m" && go test -json -vet=off -count=1 -timeout 6m ./... 2>&1)
  fi
  p=$(printf '%s\n' "$out" | grep -c '"Action":"pass","Package":"[^"]*","Test"')
  f=$(printf '%s\n' "$out" | grep -c '"Action":"fail","Package":"[^"]*","Test"')
  bf=$(printf '%s\n' "$out" | grep -c '"Action":"fail"')
  echo "module=$m pass=$p fail=$f anyfail=$bf"
  if [ "$bf" != "0" ]; then printf '%s\n' "$out" | grep -E '"Action":"(fail|output)"' | grep -E 'FAIL|panic|fail' | head -20; fi
  tot_pass=$((tot_pass+p)); tot_fail=$((tot_fail+bf))
done
echo "BASELINE pass=$tot_pass fail=$tot_fail"
[ "$tot_fail" = "0" ]

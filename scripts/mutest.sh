#!/bin/bash
# usage: mutest.sh <patch.diff> <prop> [<prop>...]   — apply a seeded change to /repo, run the checks, undo it
set -u
PATCH=$1; shift
[ -f "$PATCH" ] || PATCH=/tmp/mutrebased/$PATCH.diff
cd /repo || exit 2
if ! git diff --quiet; then echo "repo dirty"; exit 2; fi
if ! git apply --3way "$PATCH" 2>/tmp/mutest.err; then
  if ! git apply "$PATCH" 2>>/tmp/mutest.err; then echo "PATCH-DOES-NOT-APPLY"; cat /tmp/mutest.err | head -5; git checkout -- . ; git reset -q; exit 3; fi
fi
git reset -q
for P in "$@"; do
  out=$(cd /verif && ./check "$P" 2>&1 | tail -4)
  echo "--- $P under $(basename $(dirname $PATCH))/$(basename $PATCH):"
  echo "$out"
done
git checkout -- . ; git clean -fdq 2>/dev/null
git status --short | head -3

#!/bin/bash
# usage: mutest_iso.sh [-R] <patch.diff|seeded id> <prop> [<prop>...]
# Like mutest.sh, but on a private copy of /verif (/tmp/vmy/verif, re-synced on every call) and a private worktree of
# /repo (/tmp/vmy/repo), so /repo itself is never touched. -R applies the patch in reverse (reverting a fix).
set -u
REV=""; if [ "$1" = "-R" ]; then REV="-R"; shift; fi
PATCH=$1; shift
[ -f "$PATCH" ] || { [ -f /verif/seeded/$PATCH/patch.diff ] && PATCH=/verif/seeded/$PATCH/patch.diff; }
[ -f "$PATCH" ] || PATCH=/tmp/mutrebased/$PATCH.diff
W=/tmp/vmy
mkdir -p $W
rsync -a --delete --exclude .git --exclude replays --exclude evidence --exclude '.build' --exclude 'lean/.lake' /verif/ $W/verif/
mkdir -p $W/verif/evidence
HEAD=$(git -C /repo rev-parse HEAD)
if [ ! -d $W/repo ]; then git -C /repo worktree add -q --detach $W/repo HEAD || exit 2; fi
git -C $W/repo checkout -q --detach $HEAD && git -C $W/repo reset -q --hard && git -C $W/repo clean -fdq
sed -i "s#=> /repo#=> $W/repo#" $W/verif/go/harness/go.mod
if ! git -C $W/repo apply $REV "$PATCH" 2>/tmp/mutest_iso.err; then echo "PATCH-DOES-NOT-APPLY"; head -5 /tmp/mutest_iso.err; exit 3; fi
export VERIF_REPO=$W/repo
for P in "$@"; do
  out=$(cd $W/verif && ./check "$P" 2>&1 | tail -4)
  echo "--- $P under $REV $(basename $(dirname $PATCH))/$(basename $PATCH):"
  echo "$out"
done
git -C $W/repo reset -q --hard

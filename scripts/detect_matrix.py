#!/usr/bin/env python3
"""Runs every seeded change under /verif/seeded through the quick check of the property it breaks
(and of related properties) and records what was reported. Applies each patch to /repo and undoes it."""
import json, os, re, subprocess, sys, time
VERIF = os.path.dirname(os.path.dirname(os.path.abspath(__file__)))
REPO = os.environ.get("VERIF_REPO", "/repo")
SEEDED = os.path.join(VERIF, "seeded")
RELATED = {"C03": ["C03", "C06", "C07"], "C09": ["C09", "C03"], "C10": ["C10", "C03", "C11"], "C12": ["C12", "C03"], "C16": ["C16", "C03"], "C04": ["C04", "C08"], "C08": ["C08", "C01"]}
def sh(cmd, cwd=None, timeout=3000):
    p = subprocess.run(cmd, cwd=cwd, shell=True, capture_output=True, text=True, timeout=timeout)
    return p.returncode, p.stdout + p.stderr
only = sys.argv[1:]
rows = []
for mid in sorted(os.listdir(SEEDED)):
    d = os.path.join(SEEDED, mid)
    if not os.path.isfile(os.path.join(d, "meta.json")) or (only and mid not in only):
        continue
    meta = json.load(open(os.path.join(d, "meta.json")))
    prop = meta["breaks_property"]
    rc, out = sh("git diff --quiet && git apply %s/patch.diff" % d, REPO)
    if rc != 0:
        print(mid, "patch does not apply / repo dirty", out[:200]); continue
    det = {}
    try:
        for p in RELATED.get(prop, [prop]):
            t = time.time()
            rc, out = sh("./check %s --tier quick" % p, VERIF)
            viol = [l for l in out.splitlines() if l.startswith("VIOLATION")]
            det[p] = {"exit": rc, "violations": len(viol), "concrete_failing_input": any("no-failing-input-found" not in l for l in viol) if viol else False,
                      "wall_s": round(time.time() - t, 1)}
            if viol and p == prop:
                m = re.search(r"replay=(\S+)", viol[0])
                if m and os.path.exists(m.group(1)):
                    r = json.load(open(m.group(1)))
                    det[p]["why"] = (r.get("why") or r.get("what") or "; ".join(r.get("broken_obligations", [])[:2]))[:300]
    finally:
        sh("git checkout -- . && git clean -fdq", REPO)
    meta["detected_by"] = det
    json.dump(meta, open(os.path.join(d, "meta.json"), "w"), indent=1)
    own = det.get(prop, {})
    rows.append((mid, prop, own.get("violations", 0) > 0, own.get("concrete_failing_input"), [p for p, v in det.items() if v["violations"] and p != prop], own.get("wall_s")))
    print(rows[-1], flush=True)
# the table is always rebuilt from every meta.json, so a partial run does not lose rows
allrows = []
for mid in sorted(os.listdir(SEEDED)):
    mp = os.path.join(SEEDED, mid, "meta.json")
    if not os.path.isfile(mp):
        continue
    meta = json.load(open(mp)); prop = meta["breaks_property"]; det = meta.get("detected_by") or {}
    own = det.get(prop, {})
    allrows.append((mid, prop, own.get("violations", 0) > 0, own.get("concrete_failing_input"),
                    [p for p, v in det.items() if v["violations"] and p != prop], own.get("wall_s")))
with open(os.path.join(SEEDED, "DETECTION.md"), "w") as f:
    f.write("# Seeded changes and what the checks report (quick tier, VERIF_SEED default)\n\n"
            "Each change was written by an independent sub-agent given only the property text and a scratch worktree, confirmed by "
            "`scripts/confirm_seeded.py` (compiles, unedited suite passes with it, demonstration fails with it and passes without it) "
            "and run by `scripts/detect_matrix.py`.\n\n"
            "| change | breaks | own check alarms | concrete failing input | other checks that alarm | wall s |\n|---|---|---|---|---|---|\n")
    for r in allrows:
        f.write("| %s | %s | %s | %s | %s | %s |\n" % (r[0], r[1], "yes" if r[2] else "NO",
                "yes" if r[3] else ("no (broken obligation / correspondence outside the property's observables)" if r[2] else "-"), ", ".join(r[4]) or "-", r[5]))
    f.write("\nDetected by the check of the property it breaks: %d / %d.\n" % (sum(1 for r in allrows if r[2]), len(allrows)))
print("detected by own check (this run): %d / %d" % (sum(1 for r in rows if r[2]), len(rows)))

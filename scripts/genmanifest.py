#!/usr/bin/env python3
"""Regenerates /verif/MANIFEST.json from checklib/props.py (claimed checks) and notapplicable.json."""
import json, os, sys
V = os.path.dirname(os.path.dirname(os.path.abspath(__file__)))
sys.path.insert(0, V)
from checklib import props

ALL = ["C%02d" % i for i in range(1, 21)]
NA_FILE = os.path.join(V, "not_applicable.json")
na = json.load(open(NA_FILE)) if os.path.exists(NA_FILE) else {}
hooks = {
 "guard": "verif",
 "enable": "go build -tags verif (Go build tag; /verif/go/harness is always built with it against /repo's working tree)",
 "baseline_off_cmd": "/verif/scripts/baseline.sh",
 "source_commits": ["51f13e1", "3c44f3d", "bd14e30"],
 "add_only": True,
}
checks = []
for pid in ALL:
    if pid not in props.PROPS or not props.PROPS[pid].get("ready"):
        continue
    sp = props.PROPS[pid]
    checks.append({
        "property_id": pid,
        "quick_cmd": "./check %s --tier quick" % pid,
        "thorough_cmd": "./check %s --tier thorough" % pid,
        "evidence_file": "/verif/evidence/%s.json" % pid,
        "replay_cmd_template": "./check %s --replay {path}" % pid,
        "engine": "lean4-proof+correspondence",
        "level_claimed": {"category": "proof", "text": sp.get("level_text", ""), "design_ref": sp.get("design_ref", "DESIGN.md §6 " + pid)},
        "level_note": sp.get("level_note", ""),
        "technique": sp.get("technique", "Lean 4 theorems about a hand-written executable model, tied to /repo by differential execution (Go harness vs Lean driver) on every run"),
    })
man = {
 "version": 1,
 "setup_cmd": "./setup.sh",
 "hooks": hooks,
 "engines": [{"name": "lean4-proof+correspondence", "path": "/verif/check", "serves_properties": [c["property_id"] for c in checks],
              "kind_free_text": "Lean 4.33 kernel-checked theorems (lake build + #print axioms audit) over models in /verif/lean/Ebu/Model; model tied to the code by a line-protocol differential run of /verif/go/harness (real code, -tags verif) against the compiled model driver; fact extractor regenerates Ebu/Generated from source"}],
 "checks": checks,
 "notes": "Every check: regenerate facts from /repo, lake build the property's theorems (+ #print axioms audit, forbidden-construct scan; leanchecker in the thorough tier), go build the harness from /repo's working tree with -tags verif, run corpus + generated cases through implementation and model, decide. VERIF_SEED seeds all generators.",
 "not_applicable": [{"property_id": p, "reason": na.get(p, "not yet built in this revision of the framework")} for p in ALL if p not in props.PROPS or not props.PROPS[p].get("ready")],
}
json.dump(man, open(os.path.join(V, "MANIFEST.json"), "w"), indent=1)
print("checks:", [c["property_id"] for c in checks], "not_applicable:", [x["property_id"] for x in man["not_applicable"]])

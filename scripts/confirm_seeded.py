#!/usr/bin/env python3
"""Confirm seeded changes in a scratch worktree of /repo (outside /repo and /verif) and store them under /verif/seeded/<id>/.
For each: the change compiles, the repository's unedited suite passes with it, the demonstration fails with it and passes without it."""
import json, os, re, shutil, subprocess, sys, concurrent.futures as cf
SRC = "/tmp/mut"; REB = "/tmp/mutrebased"; OUT = "/verif/seeded"
ENV = dict(os.environ, GOFLAGS="-mod=mod", GOPROXY="off")
ENV.pop("GOSUMDB", None)
PROPS = {json.loads(l)["id"]: json.loads(l) for l in open("/verif/properties.jsonl")}

def sh(cmd, cwd, timeout=1500):
    p = subprocess.run(cmd, cwd=cwd, env=ENV, shell=True, capture_output=True, text=True, timeout=timeout)
    return p.returncode, (p.stdout + p.stderr)

def demo_dir(demo_src, patch):
    m = re.search(r"^package (\w+)", demo_src, re.M)
    pkg = m.group(1) if m else "eventbus"
    return {"state": "state", "state_test": "state", "sqlite": "stores/sqlite", "sqlite_test": "stores/sqlite",
            "durablestream": "stores/durablestream", "durablestream_test": "stores/durablestream", "otel": "otel", "otel_test": "otel"}.get(pkg, ".")

def modules_touched(patch):
    mods = {"."}
    for m in re.finditer(r"^\+\+\+ b/(\S+)", patch, re.M):
        f = m.group(1)
        for sub in ("stores/sqlite", "stores/durablestream", "otel"):
            if f.startswith(sub + "/"):
                mods.add(sub)
    mods.add("stores/sqlite"); mods.add("otel")     # cheap, and they depend on the root module
    return sorted(mods)

def confirm(item):
    pid, k, wt = item
    mid = "%s_m%d" % (pid, k)
    patch_path = os.path.join(REB, mid + ".diff")
    mdir = os.path.join(SRC, pid, "MUTATION")
    demo_path = os.path.join(mdir, "m%d_demo_test.go" % k)
    note_path = os.path.join(mdir, "m%d.md" % k)
    if not (os.path.exists(patch_path) and os.path.exists(demo_path)):
        return mid, {"status": "missing files"}
    patch = open(patch_path).read(); demo = open(demo_path).read()
    head = subprocess.run(["git", "-C", "/repo", "rev-parse", "HEAD"], capture_output=True, text=True).stdout.strip()
    sh("git checkout -q --detach %s && git reset -q --hard && git clean -fdxq" % head, wt)
    res = {"property": pid, "base_commit": head[:7]}
    rc, out = sh("git apply %s" % patch_path, wt)
    if rc != 0:
        return mid, dict(res, status="patch does not apply", output=out[-500:])
    # 1. compiles, vet quiet on the package
    for mod in modules_touched(patch):
        rc, out = sh("go build ./... ", os.path.join(wt, mod))
        if rc != 0:
            return mid, dict(res, status="does not compile in %s" % mod, output=out[-800:])
    # 2. the unedited suite passes with the change
    suite = {}
    for mod in modules_touched(patch):
        rc, out = sh("go test -vet=off -count=1 ./... 2>&1 | tail -5", os.path.join(wt, mod))
        suite[mod] = "ok" if (" ok " in (" " + out) or "ok  \t" in out) and "FAIL" not in out else "FAIL: " + out[-300:]
    res["suite_with_change"] = suite
    if any(v != "ok" for v in suite.values()):
        return mid, dict(res, status="existing suite fails with the change")
    # 3. demonstration fails with the change …
    ddir = demo_dir(demo, patch)
    tests = re.findall(r"^func (Test\w+)\(", demo, re.M)
    runpat = "^(%s)$" % "|".join(tests)
    target = os.path.join(wt, ddir, "zz_seeded_demo_test.go")
    shutil.copy(demo_path, target)
    race = "-race " if re.search(r"go test[^\n]*-race", demo[:3000]) else ""     # demonstrations of data races ask for the race detector
    rc1, out1 = sh("go test %s-vet=off -count=1 -run '%s' . 2>&1 | tail -15" % (race, runpat), os.path.join(wt, ddir), timeout=900)
    res["demo_with_change"] = "FAIL" if rc1 != 0 or "FAIL" in out1 else "pass"
    res["demo_with_change_tail"] = out1[-600:]
    # … and passes without it
    sh("git apply -R %s" % patch_path, wt)
    rc2, out2 = sh("go test %s-vet=off -count=1 -run '%s' . 2>&1 | tail -5" % (race, runpat), os.path.join(wt, ddir), timeout=900)
    res["demo_without_change"] = "pass" if ("ok" in out2 and "FAIL" not in out2) else "FAIL: " + out2[-300:]
    os.remove(target)
    confirmed = res["demo_with_change"] == "FAIL" and res["demo_without_change"] == "pass"
    res["status"] = "confirmed" if confirmed else "not confirmed"
    if confirmed:
        d = os.path.join(OUT, mid); os.makedirs(d, exist_ok=True)
        shutil.copy(patch_path, os.path.join(d, "patch.diff"))
        shutil.copy(demo_path, os.path.join(d, "demo_test.go"))
        note = open(note_path).read() if os.path.exists(note_path) else ""
        open(os.path.join(d, "NOTES.md"), "w").write(note)
        meta = {"id": mid, "breaks_property": pid, "property_title": PROPS[pid]["title"],
                "needs_to_manifest": (re.search(r"(?i)(needs?|trigger|manifest|only (?:shows|when))[^\n]*", note) or [None])[0] if note else None,
                "what_i_ran": {"base": "jilio/ebu at %s (scratch worktree, removed afterwards)" % head[:7],
                               "build": "go build ./... in every module: ok",
                               "suite_with_change": suite,
                               "demo": "copied to %s as zz_seeded_demo_test.go; go test %s-run '%s': FAILS with the change, passes without" % (ddir, race, runpat)},
                "author": "independent sub-agent given only the property text and its own scratch worktree",
                "detected_by": None}
        json.dump(meta, open(os.path.join(d, "meta.json"), "w"), indent=1)
    return mid, res

def main():
    items = []
    wts = []
    for i in range(6):
        wt = "/tmp/seedwt%d" % i
        if not os.path.isdir(wt):
            subprocess.run(["git", "-C", "/repo", "worktree", "add", "-q", "--detach", wt, "HEAD"], check=True)
        wts.append(wt)
    ids = sorted({f[:-5] for f in os.listdir(REB) if f.endswith(".diff")})
    only = sys.argv[1:]
    jobs = [(m.split("_m")[0], int(m.split("_m")[1])) for m in ids if not only or m in only]
    results = {}
    # static assignment of jobs to worktrees
    def worker(idx):
        out = []
        for j, (pid, k) in enumerate(jobs):
            if j % len(wts) == idx:
                out.append(confirm((pid, k, wts[idx])))
        return out
    with cf.ThreadPoolExecutor(max_workers=len(wts)) as ex:
        for lst in ex.map(worker, range(len(wts))):
            for mid, r in lst:
                results[mid] = r
                print(mid, r.get("status"), r.get("demo_with_change"), r.get("demo_without_change"), flush=True)
    logp = os.path.join(OUT, "confirmation_log.json")
    allres = json.load(open(logp)) if os.path.exists(logp) else {}
    allres.update(results)
    json.dump(allres, open(logp, "w"), indent=1, sort_keys=True)
    for wt in wts:
        subprocess.run(["git", "-C", "/repo", "worktree", "remove", "--force", wt])

if __name__ == "__main__":
    main()

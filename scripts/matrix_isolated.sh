#!/bin/bash
# Runs scripts/detect_matrix.py on a private copy of /verif against a private worktree of /repo (both under /tmp/vmx,
# removed afterwards), so that the seeded changes are never applied to /repo itself and other work can go on meanwhile.
# The results (seeded/*/meta.json, seeded/DETECTION.md) are copied back.   usage: matrix_isolated.sh [ids…]
set -u
W=/tmp/vmx
rm -rf $W/verif; git -C /repo worktree remove --force $W/repo 2>/dev/null; rm -rf $W; mkdir -p $W
rsync -a --exclude .git --exclude replays --exclude '.build/gocache' /verif/ $W/verif/
git -C /repo worktree add -q --detach $W/repo HEAD || exit 2
sed -i "s#=> /repo#=> $W/repo#" $W/verif/go/harness/go.mod
export VERIF_REPO=$W/repo
(cd $W/verif && python3 scripts/detect_matrix.py "$@") > /tmp/matrix_isolated.log 2>&1
rc=$?
for d in $W/verif/seeded/*/; do id=$(basename $d); [ -f $d/meta.json ] && cp $d/meta.json /verif/seeded/$id/meta.json; done
cp $W/verif/seeded/DETECTION.md /verif/seeded/DETECTION.md
git -C /repo worktree remove --force $W/repo; rm -rf $W
echo "matrix done rc=$rc"

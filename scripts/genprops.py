#!/usr/bin/env python3
"""Generate Props/Cxx.lean for the bus properties from the statements in Proofs/Bus*.lean.
Each property theorem restates a lemma of the Proofs files verbatim (same binders, same
statement) and is proved by that lemma, so the Props files hold the property theorems only."""
import re, sys, os
LEAN = os.path.join(os.path.dirname(os.path.dirname(os.path.abspath(__file__))), "lean")

def blocks(path):
    """theorem name -> (doc comment, signature text between the name and the `:=` that starts the proof)"""
    src = open(path).read()
    out = {}
    for m in re.finditer(r"((?:/--(?:(?!-/)(?:.|\n))*-/\n)?)theorem (\S+)", src):
        doc, name = m.group(1), m.group(2)
        i = m.end(); depth = 0; line_start = src.rfind("\n", 0, i) + 1
        while i < len(src):
            ch = src[i]
            if ch == "\n":
                line_start = i + 1
            elif ch in "({[⟨":
                depth += 1
            elif ch in ")}]⟩":
                depth -= 1
            elif src.startswith(":=", i) and depth == 0 and not src[line_start:i].lstrip().startswith("let "):
                break
            i += 1
        out[name] = (doc, src[m.end():i])
    return out

def split_sig(sig):
    # binders are the top-level bracket groups before the first top-level ':'
    depth = 0; i = 0; binders = []; start = None
    while i < len(sig):
        ch = sig[i]
        if ch in "({[":
            if depth == 0: start = i
            depth += 1
        elif ch in ")}]":
            depth -= 1
            if depth == 0: binders.append(sig[start:i+1])
        elif ch == ":" and depth == 0:
            return binders, sig[:i], sig[i+1:]
        i += 1
    raise ValueError(sig)

def args_of(binders):
    args = []
    for b in binders:
        if b[0] != "(": continue
        names = b[1:b.index(":")].split()
        args += names
    return args

def gen(prop, title, intro, items, outpath, imports, ns="Ebu.Bus", opens="Ebu.Bus"):
    L = ["import " + i for i in imports] + ["/-!", "%s — %s" % (prop, title), "", intro, "-/", "namespace Ebu.Props.%s" % prop, "open " + opens, ""]
    for (path, name, newname) in items:
        doc, sig = blocks(os.path.join(LEAN, path))[name]
        binders, pre, stmt = split_sig(sig)
        L.append(doc + "theorem %s%s:%s:=\n  %s.%s %s\n" % (newname, pre, stmt.rstrip() + " ", ns, name, " ".join(args_of(binders))))
    L.append("end Ebu.Props.%s" % prop)
    open(outpath, "w").write("\n".join(L) + "\n")

R, F, P, O = "Ebu/Proofs/BusRefine.lean", "Ebu/Proofs/BusFrame.lean", "Ebu/Proofs/BusPersist.lean", "Ebu/Proofs/BusObs.lean"
IMP = ["Ebu.Spec.Bus", "Ebu.Proofs.BusRefine", "Ebu.Proofs.BusFrame", "Ebu.Proofs.BusPersist", "Ebu.Proofs.BusObs"]
SPECS = {
 "C01": ("Publish reaches exactly the subscribed handlers, once each, in order",
   "Model: M1 (`Ebu/Model/Bus.lean`). The theorems hold for every program, including handlers that subscribe, unsubscribe, clear, publish, cancel and panic re-entrantly, every fuel, and every routing function `shardOf`.",
   [(R,"sharded_lawful","sharded_lawful"),(R,"exec_refines","step_refines_flat"),(R,"run_refines","sharded_refines_flat"),
    (R,"subscribe_spec","subscribe_spec"),(R,"unsubscribe_spec","unsubscribe_spec"),(R,"clear_spec","clear_spec"),(R,"clearAll_spec","clearAll_spec"),(R,"queries_spec","queries_spec"),
    (F,"wf_run","registry_wellformed"),(F,"publish_sound","publish_sound"),(F,"publish_complete","publish_complete"),(F,"publish_at_most_once","publish_at_most_once")]),
 "C05": ("A panicking handler never harms the publisher or the other handlers",
   "`publish_complete` quantifies over arbitrary handler bodies, panicking ones included: the other handlers of the event still receive it.",
   [(F,"no_panic_escapes","no_panic_escapes"),(F,"callHandler_panic","panic_handler_exactly_once"),(F,"publish_complete","others_still_receive"),(F,"once_retired_after_run","panicking_once_stays_retired")]),
 "C08": ("Cancellation, context propagation and publish hooks behave predictably", "",
   [(F,"dead_publish_inert","cancelled_before_no_handler"),(F,"cancelled_loop_inert","cancel_stops_dispatch"),(F,"filter_cancel_stops_dispatch","filter_cancel_stops_dispatch"),(F,"publish_hooks","hooks_exactly_once_ordered"),(F,"publish_sound","ctx_and_value_propagate")]),
 "C09": ("Every publish on a persistent bus is recorded once, before it is delivered", "",
   [(P,"applyOptions_spec","options_order_irrelevant"),(P,"applyOptions_perm","options_permutation"),(P,"persist_spec","one_record_per_publish"),(P,"publish_persists_first","recorded_before_delivery"),(P,"offsets_increasing","offsets_increasing")]),
 "C13": ("Persistence failures are contained, reported once and never corrupt the log", "",
   [(P,"persist_spec","failure_reported_once_no_retry"),(P,"delivery_independent_of_faults","delivery_independent_of_faults"),(P,"offsets_increasing","offsets_keep_increasing"),(F,"no_panic_escapes","publish_does_not_panic")]),
 "C20": ("Observability callbacks are balanced, nested and truthful", "",
   [(O,"obs_balanced_exec","obs_balanced_call"),(O,"obs_balanced_run","obs_balanced_run"),(O,"obs_ids_fresh","span_ids_fresh"),(O,"callHandler_obs","handler_callbacks"),(O,"persist_obs","persist_callbacks"),(O,"publish_obs","publish_callbacks"),(O,"no_obs_no_events","no_observability_no_callbacks"),
    ("Ebu/Proofs/BusOtel.lean","spans_ended_exactly_once","spans_ended_exactly_once"),("Ebu/Proofs/BusOtel.lean","counters_truthful","counters_truthful")]),
}
ONLY = sys.argv[1:]
for prop, (title, intro, items) in SPECS.items():
    if ONLY and prop not in ONLY: continue
    imps = ["Ebu.Spec.Bus"] + sorted({pth[:-5].replace("/", ".") for (pth, _, _) in items})
    gen(prop, title, intro, items, os.path.join(LEAN, "Ebu", "Props", prop + ".lean"), imps)
G = "Ebu/Proofs/Log.lean"
LOGSPECS = {
 "C10": ("Every bundled store behaves as one append-only, resumable log",
   "Models: M3 (`Ebu/Model/Log.lean`). `PagedSpec` is the contract of `EventStore.Read`; the memory and SQLite stores are proved to satisfy it (SQLite with offsets compared as numbers), and every store that satisfies it is proved to reproduce the log under any chain of reads. Known findings (see /verif/known_findings.json): SQLite offsets are not lexicographically ordered; the durable-streams store does not satisfy the contract when `limit` truncates a chunk — witness theorems below, plus the `_partial` statements that do hold.",
   [(G,"lexLt_fmt20","memory_offsets_lexicographic"),(G,"maxInt64_lt","int64_fits_20_digits"),(G,"mem_log","memory_log"),(G,"mem_paged","memory_satisfies_contract"),(G,"mem_stream_eq_read","memory_stream_eq_read"),(G,"mem_offsets_table","memory_offsets_table"),
    (G,"sqlParse_decimal","sqlite_offset_roundtrip"),(G,"sql_log","sqlite_log"),(G,"sql_paged","sqlite_satisfies_contract_numeric"),(G,"sql_garbage_rejected","sqlite_garbage_rejected"),(G,"sql_offsets_table","sqlite_offsets_table"),(G,"sqlite_offsets_not_lex","sqlite_offsets_not_lex"),
    (G,"chain_reads_reproduce_log","chain_reads_reproduce_log"),(G,"resume_from_event_offset","resume_from_event_offset"),
    (G,"lexLt_fmt10","ds_offsets_lexicographic"),(G,"ds_limit_loses_events","ds_limit_loses_events"),(G,"ds_event_offset_not_resumable","ds_event_offset_not_resumable"),(G,"ds_read_untruncated_partial","ds_read_untruncated_partial"),
    (G,"sqlite_saved_offset_not_verbatim","sqlite_saved_offset_not_verbatim")]),
 "C11": ("Replay delivers every event after the offset, or says that it did not",
   "Models: M4 (`Ebu/Model/Replay.lean`) over M3. Fault script: the callback fails at call k, the context is cancelled during call k, the j-th Read fails.",
   [(G,"replayStream_complete","stream_complete"),(G,"replayStream_prefix","stream_prefix_on_fault"),(G,"replaySqlBatched_complete","sqlite_batched_complete"),(G,"replaySqlBatched_prefix","sqlite_batched_prefix_on_fault"),
    (G,"replayPaged_complete","paged_complete"),(G,"replayPaged_prefix","paged_prefix_on_fault"),(G,"mem_paged","memory_satisfies_contract"),(G,"sql_paged","sqlite_satisfies_contract"),
    (G,"ds_replay_loses_events","ds_replay_loses_events"),(G,"ds_replay_untruncated_partial","ds_replay_untruncated_partial")]),
}
for prop, (title, intro, items) in LOGSPECS.items():
    if ONLY and prop not in ONLY: continue
    gen(prop, title, intro, items, os.path.join(LEAN, "Ebu", "Props", prop + ".lean"), ["Ebu.Spec.Log", "Ebu.Proofs.Log"], ns="Ebu.Log", opens="Ebu.Log Ebu.Replay")
S = "Ebu/Proofs/State.lean"
STATESPECS = {
 "C18": ("Materialized state is the fold of the message log",
   "Model: M7 (`Ebu/Model/State.lean`). `lastWrite` is the declarative meaning of a log for one (entity type, key).",
   [(S,"materialize_eq_fold","materialize_eq_fold"),(S,"identities","identities"),(S,"reset_empties_all","reset_empties_all"),(S,"lastOffset_spec","lastOffset_spec"),
    (S,"apply_config","configuration_constant"),(S,"replay_spec","replay_spec"),(S,"resume_equiv","resume_equiv"),(S,"compositeKey_inj","compositeKey_inj")], "Ebu.State"),
 "C19": ("State messages survive the round trip; bad input is rejected without damage",
   "Models: M7b (`Ebu/Model/StateWire.lean`, wire format and the discrimination logic of Apply) and M7.",
   [(S,"decode_encode_change","decode_encode_change"),(S,"decode_encode_control","decode_encode_control"),(S,"wire_field_names","wire_field_names"),(S,"decode_notObject","non_object_rejected"),
    (S,"apply_error_no_change","apply_error_no_change"),(S,"apply_err_iff","apply_err_iff")], None),
}
for prop, (title, intro, items, ns) in STATESPECS.items():
    if ONLY and prop not in ONLY: continue
    # items of C19 live in two namespaces: qualify per item
    L = ["import Ebu.Spec.State", "import Ebu.Proofs.State", "/-!", "%s — %s" % (prop, title), "", intro, "-/", "namespace Ebu.Props.%s" % prop, "open Ebu.State Ebu.StateWire", ""]
    for (path, name, newname) in items:
        doc, sig = blocks(os.path.join(LEAN, path))[name]
        binders, pre, stmt = split_sig(sig)
        q = "Ebu.StateWire" if name in ("decode_encode_change", "decode_encode_control", "wire_field_names", "decode_notObject") else "Ebu.State"
        L.append(doc + "theorem %s%s:%s:=\n  %s.%s %s\n" % (newname, pre, stmt.rstrip() + " ", q, name, " ".join(args_of(binders))))
    L.append("end Ebu.Props.%s" % prop)
    open(os.path.join(LEAN, "Ebu", "Props", prop + ".lean"), "w").write("\n".join(L) + "\n")
def simple(prop, title, intro, path, ns, opens, imports, names):
    if ONLY and prop not in ONLY: return
    gen(prop, title, intro, [(path, n, n) for n in names], os.path.join(LEAN, "Ebu", "Props", prop + ".lean"), imports, ns=ns, opens=opens)

simple("C14", "What the SQLite store acknowledged survives reopening and a killed process",
       "Model: M10 (`Ebu/Model/Durable.lean`). The theorems quantify over every sequence of appends, offset saves, kills (between or during operations, the in-flight statement committed or not), clean closes and reopenings; they rest on the assumptions stated at the top of the model file (statement atomicity, durability of committed statements across process death, AUTOINCREMENT), which the kill harness samples.",
       "Ebu/Proofs/Durable.lean", "Ebu.Durable", "Ebu.Durable", ["Ebu.Model.Durable", "Ebu.Proofs.Durable"],
       ["log_gap_free", "acked_survive", "saved_offset_survives", "new_offsets_larger", "open_idempotent"])
simple("C12", "A resumable subscription sees each event of its type once across restarts",
       "Model: M5 (`Ebu/Model/Resume.lean`) over a store that is an append-only log with resumable offsets (what C10 proves of the memory and SQLite stores). Known findings: events published while SubscribeWithReplay runs are lost (witness theorem `publish_during_replay_lost`); on the durable-streams store resumption inherits the C10 finding.",
       "Ebu/Proofs/Resume.lean", "Ebu.Resume", "Ebu.Resume", ["Ebu.Spec.Resume", "Ebu.Proofs.Resume"],
       ["resume_exactly_once", "resume_at_least_once", "saved_offset_monotone_of_freshSubs", "saved_offset_monotone_counterexample", "saved_within_log", "ids_independent", "publish_during_replay_lost"])
C = "Ebu/Proofs/Conc.lean"
for prop, title, names in [
    ("C02", "Subscribe, unsubscribe and publish stay consistent under every interleaving", ["registry_accounting", "publish_takes_current_registry", "dispatch_within_snapshot", "once_at_most_once", "seq_mutex"]),
    ("C04", "A Once handler fires at most once, and exactly once when eligible", ["once_at_most_once", "once_entered_was_claimed", "filter_reject_not_consumed", "cancelled_not_consumed"]),
    ("C06", "Wait and Shutdown return only after all asynchronous work has finished", ["inflight_counts", "wait_returns_only_when_idle"]),
    ("C07", "Sequential handlers never overlap and process events in publish order", ["seq_mutex", "tickets_in_dispatch_order", "turns_in_ticket_order"])]:
    simple(prop, title, "Model: M2 (`Ebu/Model/Conc.lean`), the interleaving model: `Reachable progs s` ranges over every program, any number of threads and every schedule at yield-point granularity.",
           C, "Ebu.Conc", "Ebu.Conc", ["Ebu.Spec.Conc", "Ebu.Proofs.Conc"], names)
# properties whose concurrent clauses rest on lock facts of the current source (C03's obligations)
EXTRAS = {
 "C14": ("Ebu.Generated.SqlFacts", """/-! ### obligations on the CURRENT source (SQL text regenerated from stores/sqlite on every run)

The model's assumptions name what the store must ask SQLite for; these are checked on the
extracted statements by the kernel. -/

open Ebu.Generated.Sql in
/-- the database is opened in WAL mode with synchronous = NORMAL (a committed transaction
survives the death of the process) -/
theorem journal_mode_wal : pragmas.contains ["PRAGMA", "journal_mode", "=", "WAL"] = true ∧
    pragmas.contains ["PRAGMA", "synchronous", "=", "NORMAL"] = true := by decide

open Ebu.Generated.Sql in
/-- positions come from an AUTOINCREMENT primary key: never reused, strictly increasing -/
theorem positions_autoincrement :
    (migrateInTx.any (fun st => st.take 6 == ["CREATE", "TABLE", "IF", "NOT", "EXISTS", "events"] &&
      (st.drop 6).take 6 == ["(", "position", "INTEGER", "PRIMARY", "KEY", "AUTOINCREMENT"])) = true := by decide

open Ebu.Generated.Sql in
/-- Append is exactly one INSERT and SaveOffset exactly one UPSERT (each a single atomic statement:
a kill can only land before or after it), neither makes any other database round trip, and the offset
Append acknowledges is the rowid reported for that very INSERT (not a value read on some pooled connection) -/
theorem append_and_save_are_single_statements :
    appendExecs = 1 ∧ saveOffsetExecs = 1 ∧ appendDbCalls = 1 ∧ saveOffsetDbCalls = 1 ∧
    appendOffsetFromInsertResult = true ∧ appendSql.take 3 == ["INSERT", "INTO", "events"] ∧
    (saveOffsetSql.take 3 == ["INSERT", "INTO", "subscription_positions"] && saveOffsetSql.contains "CONFLICT" &&
      saveOffsetSql.contains "UPDATE") = true := by decide

open Ebu.Generated.Sql in
/-- the schema and its version row are created in one transaction; opening again only re-runs
idempotent statements (`IF NOT EXISTS`) -/
theorem migrate_in_one_tx :
    migrateInTx.length = 4 ∧ (migrateInTx.getLast?.map (fun st => st.take 3)) = some ["INSERT", "INTO", "schema_version"] ∧
    (migrateOutsideTx.all (fun st => st.take 5 == ["CREATE", "TABLE", "IF", "NOT", "EXISTS"])) = true ∧
    ((migrateInTx.take 3).all (fun st => (st.drop 2).take 3 == ["IF", "NOT", "EXISTS"])) = true := by decide
"""),
 "C06": ("Ebu.Proofs.Shutdown\nimport Ebu.Model.Inflight\nimport Ebu.Generated.Consts\nimport Ebu.Props.C03Facts", """/-! ### the counter behind `Wait` (M2w) and what the CURRENT source does with its condition variable -/

/-- the wake-up discipline of the source, read off `inflight.done` on every run -/
def sourceWake : Ebu.Inflight.Wake :=
  if Ebu.Generated.Consts.inflightDoneWake == "Broadcast" then .broadcast
  else if Ebu.Generated.Consts.inflightDoneWake == "Signal" then .signal else .none

/-- OBLIGATION on the current source: `done` broadcasts when the count reaches zero and `wait` re-checks
the count in a loop -/
theorem source_broadcasts : sourceWake = .broadcast ∧ Ebu.Generated.Consts.inflightWaitRechecks = true := by decide

/-- hence, however many goroutines are in `Wait` at once and whatever the schedule, none of them stays parked
on the condition variable while nothing is in flight (no lost wake-up) … -/
theorem no_waiter_left_behind (ops : List Ebu.Inflight.Op) :
    Ebu.Inflight.NoLostWakeup (Ebu.Inflight.run sourceWake ops) := by
  rw [source_broadcasts.1]; exact Ebu.Inflight.broadcast_no_lost_wakeup ops

/-- … and a `Wait` returns only in a state with nothing in flight -/
theorem wait_returns_only_idle (s : Ebu.Inflight.St) (op : Ebu.Inflight.Op) (g : Nat)
    (hnew : g ∈ (Ebu.Inflight.step sourceWake s op).returned) (hold : g ∉ s.returned) : s.n = 0 :=
  Ebu.Inflight.returns_only_when_idle sourceWake s op g hnew hold

/-- the in-flight counter is only touched under its mutex in the CURRENT source: `add` and `done` cannot lose an update
(a lock-free `add` next to a locked `n--` would) -/
theorem inflight_counter_locked : Ebu.Locks.Discipline Ebu.Generated.accessFacts = true :=
  Ebu.Props.C03.facts_discipline

/-- the obligation is not decoration: with `Signal` two waiters and one finishing handler leave a waiter parked -/
theorem signal_would_lose_a_waiter :
    ¬ Ebu.Inflight.NoLostWakeup (Ebu.Inflight.run .signal [.add, .wait 1, .wait 2, .done]) :=
  Ebu.Inflight.signal_loses_wakeup

/-- Shutdown returns nil (or the store's close error) only when no asynchronous work is in
flight, and only then – exactly once – closes the store; when it returns the context's error it
has not closed it -/
theorem shutdown_spec (s s' : Ebu.Shutdown.S) (pick : Bool) (o : Ebu.Shutdown.Outcome)
    (h : Ebu.Shutdown.shutdown s pick = some (s', o)) :
    (o = .nil_ ∨ o = .closeError → s.inflight = 0 ∧ s'.closes = s.closes + (if s.hasCloser then 1 else 0)) ∧
    (o = .ctxError → s.cancelled = true ∧ s' = s) ∧ s'.inflight = s.inflight :=
  Ebu.Shutdown.shutdown_spec s s' pick o h

/-- … and it blocks exactly while work is in flight and the context is live -/
theorem shutdown_blocks_iff (s : Ebu.Shutdown.S) (pick : Bool) :
    Ebu.Shutdown.shutdown s pick = none ↔ (s.inflight ≠ 0 ∧ s.cancelled = false) :=
  Ebu.Shutdown.shutdown_blocks_iff s pick
"""),
 "C09": ("Ebu.Props.C03Facts\nimport Ebu.Proofs.PersistConc", """/-! ### N publishers, every schedule (M2p, `Ebu/Model/PersistConc.lean`) -/

/-- for any number of concurrent publishers and EVERY schedule: the offsets in the log are 1, 2, 3, … (distinct,
strictly increasing in log order) and `lastOffset` is the last one handed out -/
theorem concurrent_offsets_increasing (recs sched : List Nat) :
    let s := Ebu.PersistConc.run recs sched
    s.log.map (·.1) = List.range' 1 s.log.length ∧ s.lastOffset = s.log.length :=
  Ebu.PersistConc.offsets_ok recs sched

/-- … the log holds exactly one record per publish that has persisted (none lost, none twice), so N publishes that
have all got past `persistEvent` give exactly N records -/
theorem concurrent_one_record_per_publish (recs sched : List Nat) :
    let s := Ebu.PersistConc.run recs sched
    (s.log.map (·.2)).Perm (Ebu.PersistConc.persistedRecs s) ∧
    ((∀ t ∈ s.threads, 0 < t.pc) → s.log.length = recs.length) := by
  refine ⟨Ebu.PersistConc.log_ok recs sched, fun hall => ?_⟩
  rw [Ebu.PersistConc.all_persisted_length recs sched hall, Ebu.PersistConc.threads_length]

/-- … and the handlers of every publish run with that publish's record already readable from the log -/
theorem concurrent_recorded_before_delivery (recs sched : List Nat) :
    ∀ p ∈ (Ebu.PersistConc.run recs sched).seen, p.1 ∈ p.2.map (·.2) :=
  (Ebu.PersistConc.seen_ok recs sched).1

/-- the atomic persist step of M2p is what the CURRENT source does: `store.Append` and the update of `lastOffset`
sit inside one `storeMu` critical section (fact table regenerated from persist.go on every run); without it two
publishers can be handed the same offset (`Ebu.PersistConc.unlocked_duplicates_offsets`) -/
theorem appends_serialised : Ebu.Locks.CallbacksOk Ebu.Generated.callbackFacts = true ∧
    ((([0, 1, 0, 1].foldl Ebu.PersistConc.ustepAt { threads := [{ record := 7 }, { record := 8 }] }).log.map (·.1)) = [1, 1]) :=
  ⟨Ebu.Props.C03.facts_callbacks_lock_free, Ebu.PersistConc.unlocked_duplicates_offsets⟩
"""),
 "C09-old": ("Ebu.Props.C03Facts", """/-- N publishes from any number of goroutines give N records with strictly increasing offsets
because `persistEvent` calls `store.Append` and updates `lastOffset` inside one `storeMu` critical
section in the CURRENT source (fact table regenerated from persist.go on every run): appends are
serialised, so the sequential theorem `offsets_increasing` applies to every interleaving -/
theorem appends_serialised : Ebu.Locks.CallbacksOk Ebu.Generated.callbackFacts = true :=
  Ebu.Props.C03.facts_callbacks_lock_free
"""),
 "C10": ("Ebu.Props.C03Facts\nimport Ebu.Proofs.PersistConc\nimport Ebu.Generated.SqlFacts", """/-- concurrent appenders, every schedule (M2p read as "threads calling MemoryStore.Append": reserve-and-insert is
one step because both happen under the store's write lock, see `memory_store_locked` below): offsets are handed out
1, 2, 3, … in log order, one record per append, and without the lock two appenders can get the same offset -/
theorem concurrent_appends_increasing (recs sched : List Nat) :
    let s := Ebu.PersistConc.run recs sched
    s.log.map (·.1) = List.range' 1 s.log.length ∧ (s.log.map (·.2)).Perm (Ebu.PersistConc.persistedRecs s) ∧
    (([0, 1, 0, 1].foldl Ebu.PersistConc.ustepAt { threads := [{ record := 7 }, { record := 8 }] }).log.map (·.1)) = [1, 1] :=
  ⟨(Ebu.PersistConc.offsets_ok recs sched).1, Ebu.PersistConc.log_ok recs sched, Ebu.PersistConc.unlocked_duplicates_offsets⟩

/-- … and `MemoryStore.Append` is that one step in the CURRENT source: offset reservation and insertion share one
write-locked critical section; the SQLite store leaves its connection pool unconstrained (an in-memory database lives as
long as one connection is open, and a reader must not starve a writer of connections) -/
theorem memory_append_one_step_sqlite_pool_free : Ebu.Locks.MemAppendAtomic Ebu.Generated.accessFacts = true ∧
    Ebu.Generated.Sql.poolCalls = [] :=
  ⟨Ebu.Props.C03.facts_memstore_append_atomic, by decide⟩

/-- the memory store's offset counter and event slice are only touched under its mutex (write
locked for Append) in the CURRENT source: concurrent appenders cannot interleave "reserve offset"
and "insert", so offsets increase in log order under every schedule -/
theorem memory_store_locked : Ebu.Locks.Discipline Ebu.Generated.accessFacts = true :=
  Ebu.Props.C03.facts_discipline
"""),
 "C01": ("Ebu.Props.C03Facts", """/-- `Subscribe appends`, `Unsubscribe removes exactly the first registration …` describe whole API calls: every
registry mutator of the CURRENT source looks up and updates `shard.handlers` inside ONE write-locked critical section
(fact table regenerated on every run), so concurrent callers cannot lose or resurrect each other's registrations -/
theorem registry_calls_atomic : Ebu.Locks.RegistryOpsAtomic Ebu.Generated.accessFacts = true :=
  Ebu.Props.C03.facts_registry_ops_atomic
"""),
 "C04": ("Ebu.Props.C03Facts", """/-- the once claim is an atomic compare-and-swap on `executed` (the only location the CURRENT source accesses
atomically, and it does so everywhere), and the retirement of a fired once handler – like every other registry update –
happens inside ONE write-locked critical section, so a concurrent Unsubscribe cannot write a spent handler back -/
theorem once_claim_and_retirement_atomic : Ebu.Locks.Discipline Ebu.Generated.accessFacts = true ∧
    Ebu.Locks.RegistryOpsAtomic Ebu.Generated.accessFacts = true :=
  ⟨Ebu.Props.C03.facts_discipline, Ebu.Props.C03.facts_registry_ops_atomic⟩
"""),
 "C07": ("Ebu.Props.C03Facts", """/-- the ticket counter, the serving counter and the in-flight counter are only touched under their mutexes in the
CURRENT source (fact table regenerated on every run): tickets are handed out without lost updates, which is what the
atomic `ticket` step of M2 assumes -/
theorem ticket_counters_locked : Ebu.Locks.Discipline Ebu.Generated.accessFacts = true :=
  Ebu.Props.C03.facts_discipline
"""),
 "C02": ("Ebu.Props.C03Facts", """/-- the atomic subscribe / removal steps of M2 are what the CURRENT source does: every registry mutator looks up
and updates `shard.handlers` inside one write-locked critical section (fact table regenerated on every run) -/
theorem registry_steps_atomic : Ebu.Locks.RegistryOpsAtomic Ebu.Generated.accessFacts = true :=
  Ebu.Props.C03.facts_registry_ops_atomic
"""),
 "C12": ("Ebu.Props.C03Facts\nimport Ebu.Proofs.SaveConc\nimport Ebu.Generated.Consts", """/-! ### the saved offset under concurrent publishers (M5c, `Ebu/Model/SaveConc.lean`) -/

/-- under EVERY schedule of any number of concurrent publishes the values saved for a subscription never decrease
and the saved position is the last value saved – given that "read the bus offset" and "save it" are one step -/
theorem saved_offset_monotone_concurrent (n : Nat) (sched : List Nat) :
    let s := Ebu.SaveConc.runLocked n sched
    s.history.Pairwise (· ≤ ·) ∧ s.saved ≤ s.lastOffset ∧ (∀ x, s.history.getLast? = some x → s.saved = x) :=
  Ebu.SaveConc.saved_offset_monotone_concurrent n sched

/-- OBLIGATION on the current source: the live handler reads `bus.lastOffset` and calls `SaveOffset` inside one
critical section of its per-subscription mutex (extracted from persist.go on every run); without it the saved
offset regresses (`unlocked_saved_offset_regresses`: the history [2, 1]) -/
theorem live_save_is_one_step : Ebu.Generated.Consts.liveSaveSerialised = true ∧
    (Ebu.SaveConc.runUnlocked 2 [0, 0, 1, 1, 1, 0]).history = [2, 1] :=
  ⟨by decide, Ebu.SaveConc.unlocked_saved_offset_regresses.1⟩

/-- the bus offset a live handler saves is written inside the `storeMu` critical section that
also performs the append (CURRENT source), so it only ever increases; together with the
per-subscription save mutex (fix c3a4d4d) the saved offset is monotone under concurrent publishers -/
theorem bus_offset_serialised : Ebu.Locks.CallbacksOk Ebu.Generated.callbackFacts = true ∧
    Ebu.Locks.Discipline Ebu.Generated.accessFacts = true :=
  ⟨Ebu.Props.C03.facts_callbacks_lock_free, Ebu.Props.C03.facts_discipline⟩
"""),
}
EXTRAS2 = {
 "C08": ("Ebu.Spec.Bus", """/-- non-vacuity of `filter_cancel_stops_dispatch`: two handlers on type 1, the first with an accepting filter that
cancels the publish context; a publish with a fresh context evaluates the filter and enters nobody, whereas without
the cancellation both handlers run -/
example :
    (run flatImpl { bodies := [[]] } 3 []
      [.subscribe 1 0 false false false (some (1, 0)) 0 true, .subscribe 1 1 false false false none 0 false,
       .publish 1 5 false .fresh]).c.trace = [.filt 0 0 5 true] ∧
    (run flatImpl { bodies := [[]] } 3 []
      [.subscribe 1 0 false false false (some (1, 0)) 0 false, .subscribe 1 1 false false false none 0 false,
       .publish 1 5 false .fresh]).c.trace =
      [.filt 0 0 5 true, .enter 1 0 1 5 none false, .exit 1 0, .enter 1 1 1 5 none false, .exit 1 1] := by
  decide
"""),
 "C10": ("Ebu.Generated.Consts", """/-- the model's memory-store offsets (`fmt20` = 20 zero-padded digits) are what the CURRENT source
formats (`fmt.Sprintf` verb extracted from MemoryStore.Append on every run), the oldest-offset
literal is the empty string, and the SQLite store formats and parses positions in base 10 / 64 bits -/
theorem offset_formats_match_source :
    Ebu.Generated.Consts.memOffsetWidth = 20 ∧ Ebu.Generated.Consts.memOffsetZeroPadded = true ∧
    Ebu.Generated.Consts.offsetOldest = "" ∧ Ebu.Generated.Consts.sqliteFormatBase = 10 ∧
    Ebu.Generated.Consts.sqliteParseBase = 10 ∧ Ebu.Generated.Consts.sqliteParseBits = 64 ∧
    fmt20 = digitsW Ebu.Generated.Consts.memOffsetWidth := by
  refine ⟨by decide, by decide, by decide, by decide, by decide, by decide, rfl⟩
"""),
 "C11": ("Ebu.Generated.Consts\nimport Ebu.Generated.SqlFacts\nimport Ebu.Props.C03Facts", """/-- OBLIGATION on the current source: every SELECT over the events table (paged read, stream, batched stream) is a
position cursor – `WHERE position > ? ORDER BY position`, optionally `LIMIT ?` – as the models of `Read`, the stream and
`replaySqlBatched` assume; none pages with OFFSET (which counts rows instead of remembering where it was) -/
theorem sqlite_reads_are_position_cursors :
    Ebu.Generated.Sql.readSqls.length ≥ 3 ∧
    (Ebu.Generated.Sql.readSqls.all (fun st =>
      (st.drop 8).take 7 == ["FROM", "events", "WHERE", "position", ">", "?", "ORDER"] && !st.contains "OFFSET" &&
      (st.drop 15 == ["BY", "position"] || st.drop 15 == ["BY", "position", "LIMIT", "?"]))) = true := by decide

/-- replays select by `offset > from`: that is only right on a log whose offsets increase in log order, which for the
memory store rests on `Append` being one critical section in the CURRENT source -/
theorem memory_log_in_offset_order : Ebu.Locks.MemAppendAtomic Ebu.Generated.accessFacts = true :=
  Ebu.Props.C03.facts_memstore_append_atomic

/-- the model's default batch size is the one in the CURRENT source (extracted from Replay) -/
theorem default_batch_matches_source : effBatch 0 = Ebu.Generated.Consts.replayDefaultBatch ∧ effBatch (-5) = Ebu.Generated.Consts.replayDefaultBatch := by
  decide
"""),
}

# obligations on the control flow of the CURRENT source (Ebu/Generated/Flow.lean, regenerated on every run by
# go/extract/pipeline.go; predicates in Ebu/Spec/Flow.lean): each names one assumption the model of that property makes
FLOWHDR = "/-! ### obligations on the control flow of the CURRENT source (`Ebu/Generated/Flow.lean`, regenerated from /repo on every run) -/\n\n"
def fl(name, pred, doc):
    return "/-- OBLIGATION: %s -/\ntheorem %s : Ebu.Flow.%s = true := by decide +kernel\n" % (doc, name, pred)
EXTRAS3 = {
 "C01": ("Ebu.Spec.Flow", FLOWHDR +
    fl("flow_snapshot_then_dispatch", "publishPrelude", "`PublishContext` copies the registrations of the type under the shard's read lock, releases it, and only then walks the copy (M1's `publish` takes its snapshot before any handler runs)") + "\n" +
    fl("flow_dispatch_order", "dispatchOrder", "one snapshot entry is handled in the order filter, once claim, dispatch – inside the loop over the snapshot") + "\n" +
    fl("flow_retire_by_identity", "retireByIdentity", "fired once handlers are removed after the loop, under the write lock, by pointer identity of the registration, one entry each") + "\n" +
    fl("flow_subscribe_shape", "subscribeShape", "`Subscribe` / `SubscribeContext` apply the options (refusing a nil one) before the registration becomes visible and append it – once – under the shard's write lock") + "\n" +
    fl("flow_unsubscribe_first_match", "unsubscribeShape", "`Unsubscribe` removes, under the write lock, the FIRST registration with the given code pointer and returns at once (exactly one registration); `handler not found` only after the whole list was searched") + "\n" +
    fl("flow_clear_shape", "clearShape", "`Clear` deletes the type's entry, `ClearAll` replaces every shard's map, each under the shard's write lock")),
 "C02": ("Ebu.Spec.Flow", FLOWHDR +
    fl("flow_snapshot_under_read_lock", "publishPrelude", "the snapshot step of M2 is one read-locked copy, released before dispatch") + "\n" +
    fl("flow_retire_by_identity", "retireByIdentity", "the retirement step of M2 removes exactly the claimed registrations (pointer identity) inside one write-locked section after the loop") + "\n" +
    fl("flow_registry_calls", "subscribeShape", "M2's `subscribe` step: options first, then one append under the write lock") + "\n" +
    fl("flow_unsubscribe_first_match", "unsubscribeShape", "M2's `unsubscribe` step (`eraseFirst`): the first registration with that code pointer, one entry, under the write lock") + "\n" +
    fl("flow_clear_shape", "clearShape", "M2's `clear` step: one delete under the write lock")),
 "C04": ("Ebu.Spec.Flow", FLOWHDR +
    fl("flow_filter_and_ctx_before_claim", "ctxCheckBeforeClaim", "between the filter and the once claim the loop checks the context and skips the entry with `continue` (a rejected or cancelled delivery never reaches the compare-and-swap)") + "\n" +
    fl("flow_claim_order", "dispatchOrder", "filter, then compare-and-swap, then the note for retirement, then dispatch; one compare-and-swap per entry") + "\n" +
    fl("flow_retire_by_identity", "retireByIdentity", "a claimed once handler is retired by pointer identity after the loop")),
 "C05": ("Ebu.Spec.Flow", FLOWHDR +
    fl("flow_handler_bracket", "handlerBracket", "`callHandlerWithContext` takes the Sequential mutex first (unlock deferred right after the lock, then the context is checked again – the only early return), then registers the recovering `defer`; inside it `recover`, then the panic handler (only if something was recovered, once), then the handler-complete callback") + "\n" +
    fl("flow_async_cleanup_deferred", "inflightBracketsGoroutine", "an async goroutine gives its in-flight count back by a `defer` registered first (a panicking handler cannot leak it: `Wait` still returns)") + "\n" +
    fl("flow_turn_release_deferred", "ticketDiscipline", "the turn of an Async+Sequential invocation is released by a `defer` registered right after it was obtained")),
 "C06": ("Ebu.Spec.Flow", FLOWHDR +
    fl("flow_inflight_brackets_goroutine", "inflightBracketsGoroutine", "M2's `inflight + 1` happens in the publisher before the `go` statement (outside the goroutine, once per async dispatch) and `inflight - 1` is deferred first thing inside the goroutine") + "\n" +
    fl("flow_shutdown_shape", "shutdownShape", "`Shutdown` waits in a goroutine that then closes `done`; the store is closed only in the `<-done` branch – never in the `<-ctx.Done()` branch, never in the goroutine") + "\n" +
    fl("flow_wait_rechecks_and_done_broadcasts", "condVarShape", "`inflight.wait` re-checks the count in a loop around `cond.Wait`, `inflight.done` broadcasts when the count reaches zero (M2w's `Wake.broadcast`)")),
 "C07": ("Ebu.Spec.Flow", FLOWHDR +
    fl("flow_ticket_discipline", "ticketDiscipline", "the ticket is taken by the publisher (in dispatch order, before `go`), the turn is awaited inside the goroutine before the handler call, and released by a `defer` registered right after") + "\n" +
    fl("flow_handler_mutex", "handlerBracket", "the Sequential mutex is taken first thing in `callHandlerWithContext` and unlocked by a `defer` registered right after the lock; the context is checked again once it is held") + "\n" +
    fl("flow_turn_wakes_every_waiter", "condVarShape", "`awaitTurn` re-checks `seqServing` in a loop around `seqCond.Wait` and `releaseTurn` advances `seqServing` and BROADCASTS under `seqMu`: M2's turn step is enabled exactly when `serving = ticket`, which needs every waiting goroutine to be woken, not just one")),
 "C08": ("Ebu.Spec.Flow", FLOWHDR +
    fl("flow_hooks_before_dispatch", "publishPrelude", "publish-start callback, before-hooks (each once, outside every loop), persistence, snapshot – in this order, before the dispatch loop") + "\n" +
    fl("flow_hooks_after_dispatch", "publishEpilogue", "after-hooks and the publish-complete callback come after the loop and the retirement, each once, outside every loop, and no path of `PublishContext` returns before them") + "\n" +
    fl("flow_calls_guarded_by_ctx", "callsGuardedByCtx", "each of the two handler call sites sits in the `default` branch of a `select` on `ctx.Done()` (synchronous: `continue`; async goroutine: `return`)")),
 "C09": ("Ebu.Spec.Flow", FLOWHDR +
    fl("flow_persist_before_snapshot", "publishPrelude", "`persistEvent` is called exactly once per publish, unconditionally, after the before-hooks and before the snapshot is taken") + "\n" +
    fl("flow_persist_shape", "persistShape", "`persistEvent`: marshal, then ONE append (in no loop) inside the `storeMu` critical section together with the update of `lastOffset` (only on success)")),
 "C11": ("Ebu.Spec.Flow", FLOWHDR +
    fl("flow_replay_shape", "replayShape", "`Replay` never appends, publishes or subscribes; the paged loop stops on an empty page, has the stuck-offset guard, and inspects every callback result") + "\n" +
    fl("flow_sqlite_stream_checks_rows_err", "sqliteShape", "the SQLite batched stream inspects `rows.Err()` after the row loop and yields it")),
 "C10": ("Ebu.Spec.Flow", FLOWHDR +
    fl("flow_memory_store_shape", "memoryStoreShape", "`MemoryStore`: Append reserves the offset (formatted from the counter) and inserts the record under the write lock; Read keeps the events with `offset > from` (all from the oldest offset) in log order and stops when the limit is reached; SaveOffset writes under the write lock – what M3's memory store transcribes")),
 "C12": ("Ebu.Spec.Flow", FLOWHDR +
    fl("flow_resume_shape", "resumeShape", "`SubscribeWithReplay`: LoadOffset, then Replay, then – only after it has finished – the live registration; in the replay callback: upcast, select by name, decode, handler, THEN SaveOffset") + "\n" +
    fl("flow_resume_live_shape", "resumeLiveShape", "the live handler: handler first, then inside one `saveMu` critical section read `bus.lastOffset` under `storeMu` and save it, unless nothing was persisted yet")),
 "C13": ("Ebu.Spec.Flow", FLOWHDR +
    fl("flow_persist_shape", "persistShape", "`persistEvent` reports a marshal failure and returns before any append; makes ONE append attempt in no loop (no retry); writes `lastOffset` only under `saveErr == nil`; reports an append failure once, after the lock is released; cancels the timeout context by `defer`")),
 "C14": ("Ebu.Spec.Flow", FLOWHDR +
    fl("flow_sqlite_append_shape", "sqliteShape", "SQLite `Append` makes one Exec and takes the offset from that Exec's result") + "\n" +
    fl("flow_migration_is_transactional", "migrateShape", "the schema is created inside one transaction with a deferred rollback that fires when an error is returned, every statement on the transaction, commit last; and only when the recorded version is below 1")),
 "C18": ("Ebu.Spec.Flow", FLOWHDR +
    fl("flow_materializer_shape", "materializerShape", "`Materializer.Apply` writes `lastOffset` only after a control message or an error-free change was applied; a reset clears every collection under the lock and calls `onReset` afterwards; an unknown entity type is an error only in strict mode")),
 "C19": ("Ebu.Spec.Flow", FLOWHDR +
    fl("flow_decode_before_mutation", "materializerShape", "`Apply` decodes first; an error of `applyChange` returns before `lastOffset` is written; a collection decodes the value before it touches its store")),
 "C20": ("Ebu.Spec.Flow", FLOWHDR +
    fl("flow_publish_callbacks", "publishPrelude", "`OnPublishStart` comes first (its context is the one hooks, persistence and handlers get)") + "\n" +
    fl("flow_publish_complete_last", "publishEpilogue", "`OnPublishComplete` is the last thing `PublishContext` does, on every path") + "\n" +
    fl("flow_handler_callbacks", "handlerBracket", "`OnHandlerStart` once before the call, `OnHandlerComplete` once inside the recovering `defer`, whether or not something was recovered") + "\n" +
    fl("flow_persist_callbacks", "persistShape", "`OnPersistStart` before and `OnPersistComplete` after the one append, once each") + "\n" +
    fl("flow_otel_adapter", "otelShape", "the OpenTelemetry adapter: every start callback starts one span and increments its counter once, unconditionally, with no early return; every complete callback takes the span from the context and ends it exactly once as its last statement on every path; the error counters are incremented exactly under `err != nil`")),
}

EXTRAS4 = {
 "C04": ("Ebu.Proofs.ConcOnce", '/-! ### exactly once when eligible, and gone afterwards (M2 at quiescence, `Proofs/ConcOnce.lean`) -/\n\n/-- "… and is no longer counted as subscribed afterwards": once every publish has returned, no registration whose\ncompare-and-swap succeeded is still in the registry – under every schedule, whoever claimed it, synchronous or Async -/\ntheorem once_fired_is_retired (progs : List (List Ebu.Conc.Op)) (s : Ebu.Conc.Sys) (h : Ebu.Conc.Reachable progs s)\n    (hd : s.allDone) : ∀ r ∈ s.sh.regs, r.rid ∉ s.sh.executed :=\n  Ebu.Conc.once_fired_is_retired progs s h hd\n\n/-- "… it is invoked exactly once": when no publish context was ever cancelled, every claimed Once registration has been\nentered exactly once by the time everything has finished (a claim is never lost between the compare-and-swap and the call) -/\ntheorem once_claimed_was_entered (progs : List (List Ebu.Conc.Op)) (s : Ebu.Conc.Sys) (h : Ebu.Conc.Reachable progs s)\n    (hd : s.allDone) (hc : s.sh.cancelled = []) : ∀ rid ∈ s.sh.executed, s.sh.enteredOnce.count rid = 1 :=\n  Ebu.Conc.once_claimed_was_entered progs s h hd hc\n\n/-- only Once registrations are ever claimed -/\ntheorem executed_are_once (progs : List (List Ebu.Conc.Op)) (s : Ebu.Conc.Sys) (h : Ebu.Conc.Reachable progs s) :\n    ∀ rid ∈ s.sh.executed, ∀ r ∈ s.sh.regs, r.rid = rid → r.once = true :=\n  Ebu.Conc.executed_are_once progs s h\n\n/-- the hypotheses are satisfiable: two publishers racing for a synchronous and an Async Once registration reach a\nquiescent state in which both were claimed, both entered exactly once, and the registry is empty -/\ntheorem once_quiescence_reachable :\n    Ebu.Conc.Reachable Ebu.Conc.OnceExample.oxProgs Ebu.Conc.OnceExample.oxState ∧ Ebu.Conc.OnceExample.oxState.allDone ∧\n    Ebu.Conc.OnceExample.oxState.sh.cancelled = [] ∧ Ebu.Conc.OnceExample.oxState.sh.executed = [1, 0] ∧\n    Ebu.Conc.OnceExample.oxState.sh.enteredOnce = [1, 0] ∧ Ebu.Conc.OnceExample.oxState.sh.regs = [] :=\n  Ebu.Conc.OnceExample.once_hypotheses_satisfiable\n'),
 "C12": ("Ebu.Proofs.Log", """/-! ### KNOWN FINDING: positions kept in the SQLite store for events kept in a MemoryStore (`WithSubscriptionStore`) -/

/-- KNOWN FINDING (C12-sqlite-subscription-store-rewrites-foreign-offsets): the SQLite store keeps saved positions as
integers, so the memory store's offset of record 3 comes back as "3"; the memory store compares offsets as strings and
finds nothing after "3" although records 4, 5 and 6 follow the saved offset – a resumed subscription never sees them -/
theorem sqlite_positions_lose_memory_events :
    ((Ebu.Log.Sql.save {} "s" (Ebu.Log.fmt20 3)).map (fun s => s.load "s")) = some (Ebu.Log.decimal 3) ∧
    (Ebu.Log.mem6.stream (Ebu.Log.fmt20 3)).map (·.2) = [4, 5, 6] ∧
    Ebu.Log.mem6.stream (Ebu.Log.decimal 3) = [] ∧ (Ebu.Log.mem6.read (Ebu.Log.decimal 3) 0).1 = [] :=
  ⟨Ebu.Log.sqlite_saved_offset_not_verbatim.1, Ebu.Log.sqlite_positions_lose_memory_events⟩
"""),
 "C06": ("Ebu.Proofs.ConcTrace\nimport Ebu.Proofs.ConcTermination", '/-! ### every asynchronous delivery runs exactly once (M2 with its trace, `Ebu/Spec/ConcTrace.lean`) -/\n\n/-- an async goroutine performs at most one asynchronous delivery – the one it was started for (right registration,\ntype and value) – under every schedule -/\ntheorem async_delivery_at_most_once (progs : List (List Ebu.Conc.Op)) (x : Ebu.Conc.SysT) (h : Ebu.Conc.ReachableT progs x)\n    (i : Nat) (th : Ebu.Conc.Thread) (j : Ebu.Conc.Job) (hi : x.s.ths[i]? = some th) (hj : th.job = some j) :\n    Ebu.Conc.asyncEntersOf i x.tr = [] ∨ Ebu.Conc.asyncEntersOf i x.tr = [Ebu.Conc.Obs.enter j.reg.rid j.ty j.v true] :=\n  Ebu.Conc.async_at_most_once h i th j hi hj\n\n/-- … and once the goroutine has finished it has performed it exactly once, provided the publish context is still live\n(contexts are only ever cancelled, so "live now" means "live throughout") -/\ntheorem async_delivery_exactly_once (progs : List (List Ebu.Conc.Op)) (x : Ebu.Conc.SysT) (h : Ebu.Conc.ReachableT progs x)\n    (i : Nat) (th : Ebu.Conc.Thread) (j : Ebu.Conc.Job) (hi : x.s.ths[i]? = some th) (hj : th.job = some j)\n    (hd : th.pc = .done) (hl : x.s.sh.live j.ctx = true) :\n    Ebu.Conc.asyncEntersOf i x.tr = [Ebu.Conc.Obs.enter j.reg.rid j.ty j.v true] :=\n  Ebu.Conc.async_exactly_once_when_done h i th j hi hj hd hl\n\n/-- every goroutine announced by the publisher exists, and the goroutines of the test program never perform an\nasynchronous delivery themselves -/\ntheorem spawned_goroutines_exist (progs : List (List Ebu.Conc.Op)) (x : Ebu.Conc.SysT) (h : Ebu.Conc.ReachableT progs x) :\n    (x.tr.filter (fun p => match p.2 with | .spawned _ => true | _ => false)).length =\n      (x.s.ths.filter (fun th => th.job.isSome)).length :=\n  Ebu.Conc.spawned_count h\n\n/-- LIVENESS at the end of every maximal run: under the rank hypothesis (the one documented exception of C03) a state\nfrom which no goroutine can step is quiescent – every goroutine has finished, nothing is in flight – and every\nasynchronous delivery whose publish context is live has run exactly once; in particular a goroutine blocked in `Wait`\nis never left behind -/\ntheorem maximal_run_delivers_everything (ρ : Nat → Nat) (progs : List (List Ebu.Conc.Op)) (hr : Ebu.Conc.Ranked ρ progs)\n    (x : Ebu.Conc.SysT) (h : Ebu.Conc.ReachableT progs x) (hmax : ¬ x.s.canStep) :\n    x.s.allDone ∧ x.s.sh.inflight = 0 ∧\n    ∀ i th j, x.s.ths[i]? = some th → th.job = some j → x.s.sh.live j.ctx = true →\n      Ebu.Conc.asyncEntersOf i x.tr = [Ebu.Conc.Obs.enter j.reg.rid j.ty j.v true] :=\n  Ebu.Conc.maximal_run_delivers_everything ρ progs hr h hmax\n\n/-- `Wait` returns, and every goroutine finishes, after finitely many steps whatever the scheduler does: under the strict\nrank hypothesis every schedule is finite and can be continued to a quiescent end -/\ntheorem wait_eventually_returns (ρ : Nat → Nat) (progs : List (List Ebu.Conc.Op)) (hr : Ebu.Conc.RankedStrict ρ progs) :\n    (∃ bound : Nat, ∀ (sched : List Nat) (s : Ebu.Conc.Sys),\n      Ebu.Conc.runSched (Ebu.Conc.initSys progs) sched = some s → sched.length ≤ bound) ∧\n    (∀ s, Ebu.Conc.Reachable progs s →\n      ∃ (sched : List Nat) (s2 : Ebu.Conc.Sys), Ebu.Conc.runSched s sched = some s2 ∧ s2.allDone ∧ s2.sh.inflight = 0) :=\n  ⟨Ebu.Conc.runs_terminate ρ progs hr, fun s h => Ebu.Conc.every_run_completes ρ progs hr s h⟩\n\n/-- the traced system is the plain one with bookkeeping: the two reachability notions coincide -/\ntheorem trace_is_bookkeeping (progs : List (List Ebu.Conc.Op)) :\n    (∀ x, Ebu.Conc.ReachableT progs x → Ebu.Conc.Reachable progs x.s) ∧\n    (∀ s, Ebu.Conc.Reachable progs s → ∃ tr, Ebu.Conc.ReachableT progs ⟨s, tr⟩) :=\n  ⟨fun _ h => Ebu.Conc.reachableT_reachable h, fun _ h => Ebu.Conc.reachable_has_trace h⟩\n\n/-- why deliveries are counted with `asyncEntersOf`: the goroutine of an async handler also enters the synchronous\nhandlers of what that handler publishes -/\ntheorem nested_sync_entries_are_not_deliveries :\n    ∃ progs x i th j, Ebu.Conc.ReachableT progs x ∧ x.s.ths[i]? = some th ∧ th.job = some j ∧ th.pc = .done ∧\n      x.s.sh.live j.ctx = true ∧\n      ¬(Ebu.Conc.entersOf i x.tr = [] ∨ Ebu.Conc.entersOf i x.tr = [Ebu.Conc.Obs.enter j.reg.rid j.ty j.v true]) ∧\n      Ebu.Conc.asyncEntersOf i x.tr = [Ebu.Conc.Obs.enter j.reg.rid j.ty j.v true] :=\n  Ebu.Conc.entersOf_counterexample\n'),
 "C07": ("Ebu.Proofs.ConcTrace", '/-! ### every event dispatched to an Async(+Sequential) handler is delivered exactly once (M2 with its trace) -/\n\n/-- the goroutine started for one event of an Async (+Sequential) handler delivers exactly that event to exactly that\nregistration, at most once – and exactly once when it has finished and the publish context is live -/\ntheorem async_sequential_delivery_exactly_once (progs : List (List Ebu.Conc.Op)) (x : Ebu.Conc.SysT)\n    (h : Ebu.Conc.ReachableT progs x) (i : Nat) (th : Ebu.Conc.Thread) (j : Ebu.Conc.Job)\n    (hi : x.s.ths[i]? = some th) (hj : th.job = some j) :\n    (Ebu.Conc.asyncEntersOf i x.tr = [] ∨ Ebu.Conc.asyncEntersOf i x.tr = [Ebu.Conc.Obs.enter j.reg.rid j.ty j.v true]) ∧\n    (th.pc = .done → x.s.sh.live j.ctx = true →\n      Ebu.Conc.asyncEntersOf i x.tr = [Ebu.Conc.Obs.enter j.reg.rid j.ty j.v true]) :=\n  ⟨Ebu.Conc.async_at_most_once h i th j hi hj, fun hd hl => Ebu.Conc.async_exactly_once_when_done h i th j hi hj hd hl⟩\n\n/-- no goroutine waits for a turn or a Sequential mutex for ever: under the rank hypothesis every maximal run ends with\nevery goroutine finished -/\ntheorem no_invocation_starves (ρ : Nat → Nat) (progs : List (List Ebu.Conc.Op)) (hr : Ebu.Conc.Ranked ρ progs)\n    (x : Ebu.Conc.SysT) (h : Ebu.Conc.ReachableT progs x) (hmax : ¬ x.s.canStep) : x.s.allDone :=\n  (Ebu.Conc.maximal_run_delivers_everything ρ progs hr h hmax).1\n'),
}
EXTRAS4["C07"] = (EXTRAS4["C07"][0] + "\nimport Ebu.Proofs.ConcOrder", EXTRAS4["C07"][1] + '\n/-! ### processed in publish order (M2 with its trace, `Proofs/ConcOrder.lean`) -/\n\n/-- the README\'s "preserves order", for every schedule: the tickets of the asynchronous entries of an Async+Sequential\nregistration, in the order in which its handler was entered, are strictly increasing – with `tickets_in_dispatch_order`\n(tickets are handed out 0,1,2,… in dispatch order) events are processed in the order in which they were dispatched;\ncancelled ones are skipped, none overtakes -/\ntheorem async_seq_entries_in_ticket_order (progs : List (List Ebu.Conc.Op)) (x : Ebu.Conc.SysT)\n    (h : Ebu.Conc.ReachableT progs x) (rid : Nat) (hseq : Ebu.Conc.SeqJobs x.s rid) :\n    (Ebu.Conc.asyncEntryTickets x rid).Pairwise (· < ·) :=\n  Ebu.Conc.async_seq_entries_in_ticket_order h rid hseq\n\n/-- … and whatever has been entered is below the ticket that is served next -/\ntheorem async_seq_entries_below_serving (progs : List (List Ebu.Conc.Op)) (x : Ebu.Conc.SysT)\n    (h : Ebu.Conc.ReachableT progs x) (rid : Nat) (hseq : Ebu.Conc.SeqJobs x.s rid) :\n    ∀ t ∈ Ebu.Conc.asyncEntryTickets x rid, t < Ebu.Conc.lookupD x.s.sh.serving rid + 1 :=\n  Ebu.Conc.async_seq_entries_below_serving h rid hseq\n\n/-- non-vacuity: an Async+Sequential handler, two publishes, the goroutine of the second event scheduled first: it has\nto wait, and the handler is entered with tickets 0 then 1 -/\ntheorem entry_order_example :\n    Ebu.Conc.ReachableT Ebu.Conc.OrderExample.ordProgs Ebu.Conc.OrderExample.ordState ∧\n    Ebu.Conc.SeqJobs Ebu.Conc.OrderExample.ordState.s 0 ∧ Ebu.Conc.OrderExample.ordState.s.allDone ∧\n    Ebu.Conc.asyncEntryTickets Ebu.Conc.OrderExample.ordState 0 = [0, 1] ∧\n    Ebu.Conc.lookupD Ebu.Conc.OrderExample.ordState.s.sh.serving 0 = 2 :=\n  Ebu.Conc.OrderExample.order_hypotheses_satisfiable\n')
EXTRAS4["C07"] = (EXTRAS4["C07"][0] + "\nimport Ebu.Model.TurnLock", EXTRAS4["C07"][1] + '\n/-! ### the wake-up discipline of the ticket lock (M2t, `Ebu/Model/TurnLock.lean`) -/\n\n/-- how `releaseTurn` wakes the goroutines waiting for their turn in the CURRENT source (read off its control-flow skeleton) -/\ndef sourceTurnWake : Ebu.Inflight.Wake :=\n  if Ebu.Flow.occurs Ebu.Generated.Flow.turnBroadcast Ebu.Generated.Flow.releaseTurnFlow then .broadcast\n  else if Ebu.Flow.occurs Ebu.Generated.Flow.turnSignal Ebu.Generated.Flow.releaseTurnFlow then .signal else .none\n\n/-- OBLIGATION on the current source + consequence: `releaseTurn` broadcasts, hence – whatever the order in which\ngoroutines ask for their turn, park, are woken and resume – no goroutine is ever parked while its own ticket is being\nserved: the turn step of M2 ("enabled exactly when serving = ticket") abstracts the condition variable soundly -/\ntheorem turn_wakeups_never_lost (ops : List Ebu.TurnLock.Op) :\n    sourceTurnWake = .broadcast ∧ Ebu.TurnLock.NoLostWakeup (Ebu.TurnLock.run sourceTurnWake ops) := by\n  have h : sourceTurnWake = .broadcast := by decide +kernel\n  exact ⟨h, h ▸ Ebu.TurnLock.broadcast_no_lost_wakeup ops⟩\n\n/-- the obligation is not decoration: with `Signal` the wake-up can go to a goroutine whose turn it is not, and the one\nwhose turn it is sleeps on -/\ntheorem turn_signal_would_lose_a_wakeup :\n    ¬ Ebu.TurnLock.NoLostWakeup (Ebu.TurnLock.run .signal [.await 0 0, .await 2 2, .await 1 1, .release, .resume 2]) :=\n  Ebu.TurnLock.signal_loses_wakeup\n')
EXTRAS4["C08"] = ("Ebu.Proofs.ConcCancelWitness", "/-! ### cancellation under concurrency (M2): the wait for a Sequential handler's mutex -/\n\n/-- C08 under concurrency: a SYNCHRONOUS handler is never entered for a publish whose context is cancelled – also when\nits goroutine had to wait for the handler's Sequential mutex (the context is checked again once the mutex is held: the\n`fix:` commit 1feea95): every step that emits a synchronous entry is taken by a goroutine whose innermost publish\ncontext is live before the step -/\ntheorem sync_entry_only_if_live (sh : Ebu.Conc.Shared) (th : Ebu.Conc.Thread) (o : Ebu.Conc.Out)\n    (h : Ebu.Conc.step sh th = some o) (rid ty v : Nat) (he : Ebu.Conc.Obs.enter rid ty v false ∈ o.obs) :\n    ∃ f fs, th.frames = f :: fs ∧ sh.live f.ctx = true :=\n  Ebu.Conc.CancelWitness.sync_entry_only_if_live sh th o h rid ty v he\n\n/-- … and on the schedule of the former defect (goroutine 1 has passed its context check and waits for the handler's\nmutex, context 1 is cancelled, goroutine 0 leaves the handler) goroutine 1's next step enters nothing: the handler is\nskipped.  The same history is replayed on the real code by the `seqcancel` scenario of the `stress` domain. -/\ntheorem cancelled_waiter_is_skipped :\n    Ebu.Conc.entriesOfReg 0 Ebu.Conc.CancelWitness.cwAfter.tr = Ebu.Conc.entriesOfReg 0 Ebu.Conc.CancelWitness.cwState.tr :=\n  Ebu.Conc.CancelWitness.cancelled_waiter_is_skipped\n")
EXTRAS4["C08"] = (EXTRAS4["C08"][0] + "\nimport Ebu.Proofs.ConcAsyncLive", EXTRAS4["C08"][1] + "\n/-- … and the asynchronous half: the goroutine of an Async handler enters the handler only while the context of the\npublish it was started for is live – whether it checks right at its start (plain Async) or after it has waited for its\nturn and for the handler's mutex (Async+Sequential) – and what it enters is exactly the delivery it was started for -/\ntheorem async_entry_only_if_live (progs : List (List Ebu.Conc.Op)) (x : Ebu.Conc.SysT) (h : Ebu.Conc.ReachableT progs x)\n    (i : Nat) (th : Ebu.Conc.Thread) (o : Ebu.Conc.Out) (hi : x.s.ths[i]? = some th)\n    (hstep : Ebu.Conc.step x.s.sh th = some o) (rid ty v : Nat) (he : Ebu.Conc.Obs.enter rid ty v true ∈ o.obs) :\n    ∃ j, th.job = some j ∧ x.s.sh.live j.ctx = true ∧ rid = j.reg.rid ∧ ty = j.ty ∧ v = j.v :=\n  Ebu.Conc.async_entry_only_if_live h i th o hi hstep rid ty v he\n\n/-- a goroutine whose publish context is cancelled before it has entered its handler never enters it, however the run\ngoes on -/\ntheorem cancelled_job_never_enters_later (progs : List (List Ebu.Conc.Op)) (x x2 : Ebu.Conc.SysT)\n    (h : Ebu.Conc.ReachableT progs x) (hs : Ebu.Conc.StepsT x x2) (i : Nat) (th : Ebu.Conc.Thread) (j : Ebu.Conc.Job)\n    (hi : x.s.ths[i]? = some th) (hj : th.job = some j) (hdead : x.s.sh.live j.ctx = false)\n    (hnot : Ebu.Conc.asyncEntersOf i x.tr = []) :\n    Ebu.Conc.asyncEntersOf i x2.tr = [] ∧ x2.s.sh.live j.ctx = false ∧\n    ∃ th2, x2.s.ths[i]? = some th2 ∧ th2.job = some j :=\n  Ebu.Conc.cancelled_job_never_enters_later h hs i th j hi hj hdead hnot\n")
EXTRAS4["C02"] = ("Ebu.Proofs.ConcDead", '/-! ### a removed handler is never invoked again (M2 with its trace, `Proofs/ConcDead.lean`) -/\n\n/-- "a handler whose removal returned before the publish was called … never receives it": once a registration is\nneither in the registry nor carried by a publish in progress (in the rest of a snapshot, as running handler, at a\nprogram counter, as the job of a goroutine), it stays that way and no step ever enters it – whatever is published\nafterwards, under every schedule -/\ntheorem removed_registration_is_dead (progs : List (List Ebu.Conc.Op)) (x x2 : Ebu.Conc.SysT)\n    (h : Ebu.Conc.ReachableT progs x) (hs : Ebu.Conc.StepsT x x2) (rid : Nat) (hrid : rid < x.s.sh.nextRid)\n    (hgone : ∀ r ∈ x.s.sh.regs, r.rid ≠ rid) (hfree : ∀ th ∈ x.s.ths, Ebu.Conc.carriesReg rid th = false) :\n    Ebu.Conc.entriesOfReg rid x2.tr = Ebu.Conc.entriesOfReg rid x.tr ∧\n    (∀ r ∈ x2.s.sh.regs, r.rid ≠ rid) ∧ (∀ th ∈ x2.s.ths, Ebu.Conc.carriesReg rid th = false) :=\n  Ebu.Conc.removed_registration_is_dead h hs rid hrid hgone hfree\n\n/-- a registration is entered only by a goroutine that carried it before the step (it was in a snapshot taken while the\nregistration was registered): nothing is delivered to a handler out of thin air -/\ntheorem entered_only_if_carried (x x2 : Ebu.Conc.SysT) (i : Nat) (hstep : x.stepAt i = some x2) (rid : Nat)\n    (hnew : Ebu.Conc.entriesOfReg rid x2.tr ≠ Ebu.Conc.entriesOfReg rid x.tr) :\n    ∃ th, x.s.ths[i]? = some th ∧ Ebu.Conc.carriesReg rid th = true :=\n  Ebu.Conc.entered_only_if_carried_strong hstep rid hnew\n\n/-- non-vacuity: subscribe, publish, unsubscribe, publish – the handler ran once, then the hypotheses hold, and the\nsecond publish does not reach it -/\ntheorem removed_registration_example :\n    Ebu.Conc.ReachableT Ebu.Conc.DeadExample.dxProgs Ebu.Conc.DeadExample.dxState ∧\n    Ebu.Conc.StepsT Ebu.Conc.DeadExample.dxState Ebu.Conc.DeadExample.dxFinal ∧\n    0 < Ebu.Conc.DeadExample.dxState.s.sh.nextRid ∧\n    (∀ r ∈ Ebu.Conc.DeadExample.dxState.s.sh.regs, r.rid ≠ 0) ∧\n    (∀ th ∈ Ebu.Conc.DeadExample.dxState.s.ths, Ebu.Conc.carriesReg 0 th = false) ∧\n    Ebu.Conc.entriesOfReg 0 Ebu.Conc.DeadExample.dxState.tr = [(0, Ebu.Conc.Obs.enter 0 0 1 false)] ∧\n    Ebu.Conc.DeadExample.dxFinal.s.ths.map (·.pc) = [Ebu.Conc.Pc.done] ∧\n    Ebu.Conc.entriesOfReg 0 Ebu.Conc.DeadExample.dxFinal.tr = [(0, Ebu.Conc.Obs.enter 0 0 1 false)] :=\n  Ebu.Conc.dead_hypotheses_satisfiable\n')
for extras in (EXTRAS, EXTRAS2, EXTRAS3, EXTRAS4):
    for prop, (imp, text) in extras.items():
        if prop.endswith("-old"): continue
        if ONLY and prop not in ONLY: continue
        path = os.path.join(LEAN, "Ebu", "Props", prop + ".lean")
        src = open(path).read()
        if "import " + imp not in src:
            src = "import " + imp + "\n" + src
        src = src.replace("end Ebu.Props.%s" % prop, text + "\nend Ebu.Props.%s" % prop)
        open(path, "w").write(src)
print("generated", list(SPECS) + list(LOGSPECS) + list(STATESPECS) + ["C14", "C12", "C02", "C04", "C06", "C07"])

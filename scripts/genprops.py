#!/usr/bin/env python3
"""Generate Props/Cxx.lean for the bus properties from the statements in Proofs/Bus*.lean.
Each property theorem restates a lemma of the Proofs files verbatim (same binders, same
statement) and is proved by that lemma, so the Props files hold the property theorems only."""
import re, sys, os
LEAN = os.path.join(os.path.dirname(os.path.dirname(os.path.abspath(__file__))), "lean")

def blocks(path):
    src = open(path).read()
    out = {}
    for m in re.finditer(r"((?:/--(?:.|\n)*?-/\n)?)theorem (\S+)((?:.|\n)*?):= by\n", src):
        doc, name, sig = m.group(1), m.group(2), m.group(3)
        out[name] = (doc, sig)
    return out

def split_sig(sig):
    # binders are the top-level bracket groups before the first top-level ':'
    depth = 0; i = 0; binders = []; start = None
    while i < len(sig):
        ch = sig[i]
        if ch in "({[":
            if depth == 0: start = i
            depth += 1
        elif ch in ")}]":
            depth -= 1
            if depth == 0: binders.append(sig[start:i+1])
        elif ch == ":" and depth == 0:
            return binders, sig[:i], sig[i+1:]
        i += 1
    raise ValueError(sig)

def args_of(binders):
    args = []
    for b in binders:
        if b[0] != "(": continue
        names = b[1:b.index(":")].split()
        args += names
    return args

def gen(prop, title, intro, items, outpath, imports):
    L = ["import Ebu.Spec.Bus"] + ["import " + i for i in imports] + ["/-!", "%s — %s" % (prop, title), "", intro, "-/", "namespace Ebu.Props.%s" % prop, "open Ebu.Bus", ""]
    for (path, name, newname) in items:
        doc, sig = blocks(os.path.join(LEAN, path))[name]
        binders, pre, stmt = split_sig(sig)
        L.append(doc + "theorem %s%s:%s:=\n  Ebu.Bus.%s %s\n" % (newname, pre, stmt.rstrip() + " ", name, " ".join(args_of(binders))))
    L.append("end Ebu.Props.%s" % prop)
    open(outpath, "w").write("\n".join(L) + "\n")

R, F, P, O = "Ebu/Proofs/BusRefine.lean", "Ebu/Proofs/BusFrame.lean", "Ebu/Proofs/BusPersist.lean", "Ebu/Proofs/BusObs.lean"
IMP = ["Ebu.Proofs.BusRefine", "Ebu.Proofs.BusFrame", "Ebu.Proofs.BusPersist", "Ebu.Proofs.BusObs"]
SPECS = {
 "C01": ("Publish reaches exactly the subscribed handlers, once each, in order",
   "Model: M1 (`Ebu/Model/Bus.lean`). The theorems hold for every program, including handlers that subscribe, unsubscribe, clear, publish, cancel and panic re-entrantly, every fuel, and every routing function `shardOf`.",
   [(R,"sharded_lawful","sharded_lawful"),(R,"exec_refines","step_refines_flat"),(R,"run_refines","sharded_refines_flat"),
    (R,"subscribe_spec","subscribe_spec"),(R,"unsubscribe_spec","unsubscribe_spec"),(R,"clear_spec","clear_spec"),(R,"clearAll_spec","clearAll_spec"),(R,"queries_spec","queries_spec"),
    (F,"wf_run","registry_wellformed"),(F,"publish_sound","publish_sound"),(F,"publish_complete","publish_complete"),(F,"publish_at_most_once","publish_at_most_once")]),
 "C05": ("A panicking handler never harms the publisher or the other handlers",
   "`publish_complete` quantifies over arbitrary handler bodies, panicking ones included: the other handlers of the event still receive it.",
   [(F,"no_panic_escapes","no_panic_escapes"),(F,"callHandler_panic","panic_handler_exactly_once"),(F,"publish_complete","others_still_receive"),(F,"once_retired_after_run","panicking_once_stays_retired")]),
 "C08": ("Cancellation, context propagation and publish hooks behave predictably", "",
   [(F,"dead_publish_inert","cancelled_before_no_handler"),(F,"cancelled_loop_inert","cancel_stops_dispatch"),(F,"publish_hooks","hooks_exactly_once_ordered"),(F,"publish_sound","ctx_and_value_propagate")]),
 "C09": ("Every publish on a persistent bus is recorded once, before it is delivered", "",
   [(P,"applyOptions_spec","options_order_irrelevant"),(P,"applyOptions_perm","options_permutation"),(P,"persist_spec","one_record_per_publish"),(P,"publish_persists_first","recorded_before_delivery"),(P,"offsets_increasing","offsets_increasing")]),
 "C13": ("Persistence failures are contained, reported once and never corrupt the log", "",
   [(P,"persist_spec","failure_reported_once_no_retry"),(P,"delivery_independent_of_faults","delivery_independent_of_faults"),(P,"offsets_increasing","offsets_keep_increasing"),(F,"no_panic_escapes","publish_does_not_panic")]),
 "C20": ("Observability callbacks are balanced, nested and truthful", "",
   [(O,"obs_balanced_exec","obs_balanced_call"),(O,"obs_balanced_run","obs_balanced_run"),(O,"obs_ids_fresh","span_ids_fresh"),(O,"callHandler_obs","handler_callbacks"),(O,"persist_obs","persist_callbacks"),(O,"publish_obs","publish_callbacks"),(O,"no_obs_no_events","no_observability_no_callbacks")]),
}
for prop, (title, intro, items) in SPECS.items():
    gen(prop, title, intro, items, os.path.join(LEAN, "Ebu", "Props", prop + ".lean"), IMP)
print("generated", list(SPECS))

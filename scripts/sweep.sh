#!/bin/bash
# usage: sweep.sh <tier> <seed>...   — runs every claimed check on the unchanged tree; prints one line per check
cd "$(dirname "$0")/.."
TIER=$1; shift
./setup.sh >/dev/null 2>&1 || { echo "setup failed"; exit 1; }
for S in "$@"; do
  for P in $(python3 -c "import json;print(' '.join(c['property_id'] for c in json.load(open('MANIFEST.json'))['checks']))"); do
    out=$(VERIF_SEED=$S ./check $P --tier $TIER 2>&1); rc=$?
    echo "seed=$S $P rc=$rc $(echo "$out" | grep -c '^VIOLATION') violations | $(echo "$out" | tail -1)"
    echo "$out" | grep '^VIOLATION' | head -3
  done
done

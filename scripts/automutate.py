#!/usr/bin/env python3
"""Automatic mutants as a further source of realistic breakage (next to the seeded changes written by sub-agents).

  stage 1:  go/mutgen enumerates one-token / one-statement mutants of the non-test sources; each is applied in a private
            worktree of /repo, compiled, and run against the repository's own suite; the ones the suite does not notice survive.
  stage 2:  every survivor is run through the quick checks of the properties its function bears on (ordered by likelihood,
            stopping at the first check that reports it) on a private copy of /verif.

Nothing is ever applied to /repo; lanes live under /tmp/vma and are removed at the end.
usage: automutate.py gen | stage1 [lanes] | stage2 [lanes] [max] | report
Results: /tmp/automut/results.json (kept between calls, so the stages can be resumed)."""
import json, os, random, shutil, subprocess, sys, concurrent.futures as cf, threading
VERIF = os.path.dirname(os.path.dirname(os.path.abspath(__file__)))
SET = os.environ.get("AUTOMUT_SET", "1")      # operator set of go/mutgen (1: one-token operators, 2: statement-level operators)
OUT = "/tmp/automut" + ("" if SET == "1" else SET); LANES = "/tmp/vma"; RES = os.path.join(OUT, "results.json")
ENV = dict(os.environ, GOFLAGS="-mod=mod", GOPROXY="off"); ENV.pop("GOSUMDB", None)
lock = threading.Lock()

def sh(cmd, cwd=None, timeout=900, env=None):
    try:
        p = subprocess.run(cmd, cwd=cwd, shell=True, capture_output=True, text=True, timeout=timeout, env=env or ENV)
        return p.returncode, p.stdout + p.stderr
    except subprocess.TimeoutExpired:
        return 124, "TIMEOUT"

def load():
    return json.load(open(RES)) if os.path.exists(RES) else {}
def save(res):
    with lock:
        json.dump(res, open(RES + ".tmp", "w"), indent=0); os.replace(RES + ".tmp", RES)

def metas():
    out = []
    for d in sorted(os.listdir(OUT)):
        mp = os.path.join(OUT, d, "meta.json")
        if os.path.isfile(mp):
            out.append(json.load(open(mp)))
    return out

def modules_for(rel):
    if rel.startswith("stores/sqlite/"): return ["stores/sqlite"]
    if rel.startswith("stores/durablestream/"): return ["stores/durablestream"]
    if rel.startswith("otel/"): return ["otel"]
    return [".", "otel", "stores/sqlite", "stores/durablestream"]

def lane_repo(k):
    d = os.path.join(LANES, "lane%d" % k, "repo")
    if not os.path.isdir(d):
        os.makedirs(os.path.dirname(d), exist_ok=True)
        subprocess.run(["git", "-C", "/repo", "worktree", "add", "-q", "--detach", d, "HEAD"], check=True)
    return d

def stage1_one(k, m):
    repo = lane_repo(k)
    sh("git reset -q --hard && git clean -fdq", repo)
    shutil.copy(os.path.join(OUT, m["id"], m["file"]), os.path.join(repo, m["file"]))
    mods = modules_for(m["file"])
    rc, out = sh("go build ./... && go vet ./... 2>&1 | grep -v '^#' | head -3; go build ./...", os.path.join(repo, mods[0]), 300)
    rc, out = sh("go build ./...", os.path.join(repo, mods[0]), 300)
    if rc != 0:
        return "nocompile"
    for mod in mods:
        rc, out = sh("go test -vet=off -count=1 -timeout 180s ./... 2>&1 | tail -3", os.path.join(repo, mod), 400)
        if rc != 0 or "FAIL" in out or "panic:" in out or not ("ok" in out):
            return "killed-by-suite:" + mod
    return "survived"

def run_lanes(items, fn, lanes):
    res = load()
    q = list(items)
    def worker(k):
        while True:
            with lock:
                if not q: return
                m = q.pop(0)
            r = fn(k, m)
            with lock:
                res.setdefault(m["id"], {}).update(r if isinstance(r, dict) else {"stage1": r})
                res[m["id"]]["meta"] = m
            save(res)
            print(m["id"], m["file"], m["func"], m["op"], r if not isinstance(r, dict) else r.get("stage2"), flush=True)
    with cf.ThreadPoolExecutor(max_workers=lanes) as ex:
        list(ex.map(worker, range(lanes)))

def props_for(m):
    f, fn = m["file"], m["func"]
    if f == "event_bus.go":
        if fn == "PublishContext": return ["C01", "C04", "C08", "C06", "C07", "C02", "C05", "C20", "C09", "C03"]
        if fn == "callHandlerWithContext": return ["C05", "C07", "C20", "C08", "C01", "C03"]
        if fn in ("Subscribe", "SubscribeContext", "Unsubscribe", "Clear", "ClearAll", "HasHandlers", "HandlerCount", "EventBus.getShard", "New"): return ["C01", "C02", "C03", "C04"]
        if fn.startswith("inflight.") or fn in ("EventBus.Wait", "EventBus.Shutdown"): return ["C06", "C03", "C09", "C07"]
        if fn.startswith("internalHandler."): return ["C07", "C03", "C06"]
        if fn in ("EventType", "typeNameOf"): return ["C15", "C09", "C12", "C17"]
        if fn in ("WithFilter", "callFilterReflect"): return ["C01", "C04", "C08"]
        return ["C01", "C08", "C05", "C13", "C09", "C20", "C06", "C07", "C04"]
    if f == "persist.go":
        if fn == "EventBus.persistEvent": return ["C09", "C13", "C20", "C03", "C12"]
        if fn == "EventBus.Replay": return ["C11", "C12", "C18"]
        if fn == "EventBus.ReplayWithUpcast": return ["C17", "C15", "C16"]
        if fn == "SubscribeWithReplay": return ["C12", "C15", "C03"]
        if fn.startswith("MemoryStore."): return ["C10", "C11", "C12", "C09", "C03"]
        return ["C09", "C12", "C13", "C11"]
    if f == "upcast.go": return ["C16", "C17", "C15", "C03"]
    if f.startswith("state/"): return ["C18", "C19", "C03"]
    if f.startswith("stores/sqlite/"): return ["C10", "C11", "C14", "C12", "C03", "C09", "C13"]
    if f.startswith("stores/durablestream/"): return ["C10", "C11", "C13", "C09"]
    if f.startswith("otel/"): return ["C20", "C08"]
    return ["C01"]

def lane_verif(k):
    d = os.path.join(LANES, "lane%d" % k, "verif")
    repo = lane_repo(k)
    if not os.path.isdir(d):
        sh("rsync -a --exclude .git --exclude replays --exclude '.build/gocache' %s/ %s/" % (VERIF, d))
        sh("sed -i 's#=> /repo#=> %s#' %s/go/harness/go.mod" % (repo, d))
    return d

def stage2_one(k, m):
    repo = lane_repo(k); verif = lane_verif(k)
    sh("git reset -q --hard && git clean -fdq", repo)
    shutil.copy(os.path.join(OUT, m["id"], m["file"]), os.path.join(repo, m["file"]))
    env = dict(ENV, VERIF_REPO=repo)
    tried = []
    for p in props_for(m):
        rc, out = sh("./check %s --tier quick 2>&1 | tail -6" % p, verif, 1500, env)
        viol = [l for l in out.splitlines() if l.startswith("VIOLATION")]
        tried.append(p)
        if viol:
            return {"stage2": "detected", "by": p, "concrete": any("no-failing-input-found" not in l for l in viol), "tried": tried}
        if "CHECK-ERROR" in out:
            return {"stage2": "check-error", "by": p, "tried": tried, "out": out[-400:]}
    return {"stage2": "MISSED", "tried": tried}

def main():
    cmd = sys.argv[1]
    if cmd == "gen":
        shutil.rmtree(OUT, ignore_errors=True); os.makedirs(OUT)
        rc, out = sh("go build -o /tmp/mutgen . && /tmp/mutgen -repo /repo -set %s -out %s" % (SET, OUT), os.path.join(VERIF, "go", "mutgen"))
        print(out)
    elif cmd == "stage1":
        lanes = int(sys.argv[2]) if len(sys.argv) > 2 else 8
        res = load()
        todo = [m for m in metas() if "stage1" not in res.get(m["id"], {})]
        random.Random(1).shuffle(todo)
        run_lanes(todo, stage1_one, lanes)
    elif cmd == "stage2":
        lanes = int(sys.argv[2]) if len(sys.argv) > 2 else 4
        mx = int(sys.argv[3]) if len(sys.argv) > 3 else 10 ** 6
        res = load()
        todo = [r["meta"] for r in res.values() if r.get("stage1") == "survived" and "stage2" not in r]
        random.Random(2).shuffle(todo)
        run_lanes(todo[:mx], stage2_one, lanes)
    elif cmd == "report":
        res = load()
        import collections
        c1 = collections.Counter(r.get("stage1", "?").split(":")[0] for r in res.values())
        c2 = collections.Counter(r.get("stage2", "-") for r in res.values() if r.get("stage1") == "survived")
        print("stage1:", dict(c1)); print("stage2:", dict(c2))
        for i, r in sorted(res.items()):
            if r.get("stage2") in ("MISSED", "check-error"):
                m = r["meta"]
                print("%s %s %s:%d %s %s | %r -> %r | tried %s" % (r["stage2"], i, m["file"], m["line"], m["func"], m["op"], m["orig"][:70], m["new"][:40], ",".join(r.get("tried", []))))
    elif cmd == "clean":
        for k in range(16):
            d = os.path.join(LANES, "lane%d" % k, "repo")
            if os.path.isdir(d):
                subprocess.run(["git", "-C", "/repo", "worktree", "remove", "--force", d])
        shutil.rmtree(LANES, ignore_errors=True)
        subprocess.run(["git", "-C", "/repo", "worktree", "prune"])

if __name__ == "__main__":
    main()

// Command mutgen enumerates small syntactic mutations of the non-test Go sources of jilio/ebu and writes each mutated
// file to <out>/<id>/<relative path> together with <out>/<id>/meta.json. It only edits bytes at AST positions (no
// re-printing), so a mutant differs from the original in one token or one statement.
// Operators: delete a call statement; delete a defer; negate an if condition; continue->(nothing) ; break->continue;
// flip a comparison / logical operator; Lock<->RLock, Unlock<->RUnlock; integer literal 0<->1; delete an assignment to a
// field; return early (insert `return` is not attempted: result types).
package main

import (
	"encoding/json"
	"flag"
	"fmt"
	"go/ast"
	"go/parser"
	"go/token"
	"os"
	"path/filepath"
	"strings"
)

var files = []string{"event_bus.go", "persist.go", "upcast.go", "state/materializer.go", "state/helpers.go", "state/message.go",
	"stores/sqlite/store.go", "stores/sqlite/schema.go", "stores/durablestream/store.go", "otel/observability.go"}

type mutant struct {
	ID   string `json:"id"`
	File string `json:"file"`
	Func string `json:"func"`
	Line int    `json:"line"`
	Op   string `json:"op"`
	Orig string `json:"orig"`
	New  string `json:"new"`
}

func main() {
	repo := flag.String("repo", "/repo", "")
	out := flag.String("out", "", "")
	set := flag.Int("set", 1, "operator set: 1 = one-token operators, 2 = statement-level operators (drop an if, force a condition, swap neighbours, drop an else)")
	flag.Parse()
	prefix := map[int]string{1: "a", 2: "b"}[*set]
	n := 0
	for _, rel := range files {
		path := filepath.Join(*repo, rel)
		src, err := os.ReadFile(path)
		if err != nil {
			fmt.Fprintln(os.Stderr, err)
			continue
		}
		fset := token.NewFileSet()
		f, err := parser.ParseFile(fset, path, src, 0)
		if err != nil {
			fmt.Fprintln(os.Stderr, err)
			continue
		}
		emit := func(fn string, pos, end token.Pos, op, repl string) {
			a, b := fset.Position(pos).Offset, fset.Position(end).Offset
			orig := string(src[a:b])
			if strings.Contains(orig, "verifYield") || strings.Contains(orig, "verifSpawn") {
				return
			}
			n++
			id := fmt.Sprintf("%s%04d", prefix, n)
			m := mutant{id, rel, fn, fset.Position(pos).Line, op, orig, repl}
			dir := filepath.Join(*out, id)
			os.MkdirAll(filepath.Join(dir, filepath.Dir(rel)), 0o755)
			mutated := string(src[:a]) + repl + string(src[b:])
			os.WriteFile(filepath.Join(dir, rel), []byte(mutated), 0o644)
			mb, _ := json.Marshal(m)
			os.WriteFile(filepath.Join(dir, "meta.json"), mb, 0o644)
		}
		for _, d := range f.Decls {
			fd, ok := d.(*ast.FuncDecl)
			if !ok || fd.Body == nil {
				continue
			}
			fn := fd.Name.Name
			if fd.Recv != nil && len(fd.Recv.List) > 0 {
				fn = exprStr(fd.Recv.List[0].Type) + "." + fn
			}
			ast.Inspect(fd.Body, func(nd ast.Node) bool {
				// the scheduling hooks of the verif build are not part of the library: nothing inside them is mutated
				if ce, ok := nd.(*ast.CallExpr); ok {
					if id, ok := ce.Fun.(*ast.Ident); ok && (id.Name == "verifYield" || id.Name == "verifSpawn") {
						return false
					}
				}
				if *set == 2 {
					switch x := nd.(type) {
					case *ast.IfStmt:
						if x.Else == nil {
							emit(fn, x.Pos(), x.End(), "drop-if", "")
						} else {
							emit(fn, x.Body.End(), x.End(), "drop-else", "")
						}
						if x.Cond != nil {
							emit(fn, x.Cond.Pos(), x.Cond.End(), "cond-true", "true")
							emit(fn, x.Cond.Pos(), x.Cond.End(), "cond-false", "false")
						}
					case *ast.BlockStmt:
						for i := 0; i+1 < len(x.List); i++ {
							a, b := x.List[i], x.List[i+1]
							simple := func(s ast.Stmt) bool {
								switch s.(type) {
								case *ast.ExprStmt, *ast.AssignStmt, *ast.DeferStmt, *ast.IncDecStmt:
									return true
								}
								return false
							}
							if simple(a) && simple(b) {
								sa := string(src[fset.Position(a.Pos()).Offset:fset.Position(a.End()).Offset])
								sb := string(src[fset.Position(b.Pos()).Offset:fset.Position(b.End()).Offset])
								between := string(src[fset.Position(a.End()).Offset:fset.Position(b.Pos()).Offset])
								emit(fn, a.Pos(), b.End(), "swap-stmts", sb+between+sa)
							}
						}
					case *ast.ForStmt:
						if x.Cond != nil {
							emit(fn, x.Cond.Pos(), x.Cond.End(), "loop-once", "false")
						}
					case *ast.ReturnStmt:
						// (only bare returns: results would need values)
					}
					return true
				}
				switch x := nd.(type) {
				case *ast.ExprStmt:
					if _, ok := x.X.(*ast.CallExpr); ok {
						emit(fn, x.Pos(), x.End(), "delete-call", "")
					}
				case *ast.DeferStmt:
					emit(fn, x.Pos(), x.End(), "delete-defer", "")
					// run it at once instead of deferring it
					emit(fn, x.Pos(), x.Call.Pos(), "undefer", "")
				case *ast.IfStmt:
					if x.Cond != nil {
						c := fset.Position(x.Cond.Pos()).Offset
						e := fset.Position(x.Cond.End()).Offset
						emit(fn, x.Cond.Pos(), x.Cond.End(), "negate-if", "!("+string(src[c:e])+")")
					}
				case *ast.BranchStmt:
					if x.Label == nil {
						switch x.Tok {
						case token.CONTINUE:
							emit(fn, x.Pos(), x.End(), "continue-to-nothing", "")
						case token.BREAK:
							emit(fn, x.Pos(), x.End(), "break-to-continue", "continue")
						}
					}
				case *ast.BinaryExpr:
					repl := map[token.Token]string{token.LSS: "<=", token.LEQ: "<", token.GTR: ">=", token.GEQ: ">", token.EQL: "!=", token.NEQ: "==",
						token.LAND: "||", token.LOR: "&&", token.ADD: "-", token.SUB: "+"}
					if r, ok := repl[x.Op]; ok {
						// strings are concatenated with +: skip
						if x.Op == token.ADD {
							if _, isStr := x.X.(*ast.BasicLit); isStr {
								return true
							}
							if bl, ok := x.Y.(*ast.BasicLit); ok && bl.Kind == token.STRING {
								return true
							}
						}
						emit(fn, x.OpPos, x.OpPos+token.Pos(len(x.Op.String())), "flip-"+x.Op.String(), r)
					}
				case *ast.SelectorExpr:
					sw := map[string]string{"Lock": "RLock", "RLock": "Lock", "Unlock": "RUnlock", "RUnlock": "Unlock", "Broadcast": "Signal"}
					if r, ok := sw[x.Sel.Name]; ok {
						emit(fn, x.Sel.Pos(), x.Sel.End(), "swap-"+x.Sel.Name, r)
					}
				case *ast.BasicLit:
					if x.Kind == token.INT && (x.Value == "0" || x.Value == "1") {
						emit(fn, x.Pos(), x.End(), "int-"+x.Value, map[string]string{"0": "1", "1": "0"}[x.Value])
					}
				case *ast.AssignStmt:
					if len(x.Lhs) == 1 && x.Tok == token.ASSIGN {
						if _, ok := x.Lhs[0].(*ast.SelectorExpr); ok {
							emit(fn, x.Pos(), x.End(), "delete-field-assign", "")
						}
					}
				case *ast.IncDecStmt:
					emit(fn, x.Pos(), x.End(), "delete-incdec", "")
				}
				return true
			})
		}
	}
	fmt.Println("mutants:", n)
}

func exprStr(e ast.Expr) string {
	switch x := e.(type) {
	case *ast.Ident:
		return x.Name
	case *ast.StarExpr:
		return exprStr(x.X)
	case *ast.IndexExpr:
		return exprStr(x.X)
	case *ast.SelectorExpr:
		return exprStr(x.X) + "." + x.Sel.Name
	}
	return "?"
}

module verifharness

go 1.25.1

require (
	github.com/ahimsalabs/durable-streams-go v0.0.0-20251220072926-9430608b4163
	github.com/jilio/ebu v0.0.0
	github.com/jilio/ebu/otel v0.0.0
	github.com/jilio/ebu/stores/durablestream v0.0.0
	github.com/jilio/ebu/stores/sqlite v0.0.0
	go.opentelemetry.io/otel v1.38.0
	go.opentelemetry.io/otel/metric v1.38.0
	go.opentelemetry.io/otel/sdk v1.38.0
	go.opentelemetry.io/otel/sdk/metric v1.38.0
	go.opentelemetry.io/otel/trace v1.38.0
	modernc.org/sqlite v1.40.1
)

require (
	github.com/dustin/go-humanize v1.0.1 // indirect
	github.com/go-logr/logr v1.4.3 // indirect
	github.com/go-logr/stdr v1.2.2 // indirect
	github.com/go4org/hashtriemap v0.0.0-20251130024219-545ba229f689 // indirect
	github.com/google/uuid v1.6.0 // indirect
	github.com/remyoudompheng/bigfft v0.0.0-20230129092748-24d4a6f8daec // indirect
	go.opentelemetry.io/auto/sdk v1.1.0 // indirect
	golang.org/x/exp v0.0.0-20250620022241-b7579e27df2b // indirect
	golang.org/x/sys v0.36.0 // indirect
	modernc.org/libc v1.66.10 // indirect
	modernc.org/mathutil v1.7.1 // indirect
	modernc.org/memory v1.11.0 // indirect
)

replace github.com/jilio/ebu => /repo

replace github.com/jilio/ebu/otel => /repo/otel

replace github.com/jilio/ebu/stores/sqlite => /repo/stores/sqlite

replace github.com/jilio/ebu/stores/durablestream => /repo/stores/durablestream

package main

import (
	"context"
	"encoding/json"
	"errors"
	"fmt"
	"reflect"
	"strings"
	"sync"
	"sync/atomic"
	"time"

	eb "github.com/jilio/ebu"
)

// Domain "bus": the sequential bus machine M1. Everything runs one step at a
// time: async goroutines are parked at the "async.start" hook of the verif
// build and run to completion, first-spawned first, by the `drain` op.

type pubInfo struct {
	depth  int // depth of the publisher
	root   int // cancellation identity of the publish context (0 = Background)
	cancel context.CancelFunc
}

type busEvt interface {
	get() (int, *pubInfo)
}

// Type 40 is json.RawMessage itself (an event that is a pre-encoded, possibly malformed, document): it cannot
// carry methods or a pointer, so its publish info is looked up by the "pid" in the document.
var (
	rawPubs   sync.Map
	rawPubSeq atomic.Int64
)

func mkRaw(v int, bad any, p *pubInfo) json.RawMessage {
	pid := rawPubSeq.Add(1)
	rawPubs.Store(int(pid), p)
	if bad != nil {
		return json.RawMessage(fmt.Sprintf(`{"v":%d,"pid":%d`, v, pid)) // truncated: no JSON encoding
	}
	return json.RawMessage(fmt.Sprintf(`{"v":%d,"pid":%d}`, v, pid))
}

// T41 is published (and subscribed to) as a pointer: its event type is *main.T41.
type T41 struct {
	V   int `json:"v"`
	Bad any `json:"bad,omitempty"`
	p   *pubInfo
}

func (e *T41) get() (int, *pubInfo) { return e.V, e.p }

// G46 is a generic event type: its name, "main.G46[main.gItem]", has a '[' before its last '.'
type gItem struct{ N int }
type G46[T any] struct {
	V   int `json:"v"`
	Bad any `json:"bad,omitempty"`
	p   *pubInfo
	X   T
}

func (e G46[T]) get() (int, *pubInfo) { return e.V, e.p }

// U02..U05: four more event types, chosen so that the 46 harness types cover all 32 shards
type U02 struct {
	V   int `json:"v"`
	Bad any `json:"bad,omitempty"`
	p   *pubInfo
}
type U03 struct {
	V   int `json:"v"`
	Bad any `json:"bad,omitempty"`
	p   *pubInfo
}
type U04 struct {
	V   int `json:"v"`
	Bad any `json:"bad,omitempty"`
	p   *pubInfo
}
type U05 struct {
	V   int `json:"v"`
	Bad any `json:"bad,omitempty"`
	p   *pubInfo
}

func (e U02) get() (int, *pubInfo) { return e.V, e.p }
func (e U03) get() (int, *pubInfo) { return e.V, e.p }
func (e U04) get() (int, *pubInfo) { return e.V, e.p }
func (e U05) get() (int, *pubInfo) { return e.V, e.p }

func getVP(e any) (int, *pubInfo) {
	switch x := e.(type) {
	case busEvt:
		return x.get()
	case json.RawMessage:
		var v, pid int
		fmt.Sscanf(string(x), `{"v":%d,"pid":%d`, &v, &pid)
		if p, ok := rawPubs.Load(pid); ok {
			return v, p.(*pubInfo)
		}
	}
	panic(fmt.Sprintf("harness: event of unknown shape %T", e))
}

type ctxKey int

const (
	pubKey ctxKey = iota
	obsKey
)

type frame struct {
	depth    int
	ctx      context.Context // context received by the current handler (nil if not context-aware)
	ctxAware bool
	info     *pubInfo
}

type action struct {
	op   string
	args []string
}

type busCase struct {
	bus      *eb.EventBus
	out      []string
	cur      frame
	bodies   map[int][]action
	nextRid  int
	nextCtx  int
	cancels  map[int]context.CancelFunc
	nextObs  int
	maxDepth int
	ptimeout bool
	otel     *otelProbe
	calls    int
	stores   map[int]*recStore
	faults   []int

	mu         sync.Mutex
	pending    []uint64
	gates      map[uint64]chan struct{}
	ended      chan uint64
	asyncEntry bool
	hung       bool
	ridBody    map[int]int
}

var curBus *busCase // the case the global VerifYield hook routes to

func (cs *busCase) emit(format string, a ...any) {
	cs.out = append(cs.out, fmt.Sprintf(format, a...))
}

// ---- recording store wrapper (user-supplied EventStore) ----

type recStore struct {
	cs    *busCase
	sid   int
	inner *eb.MemoryStore
	kept  []keptEvent // the store keeps the *Event values it was handed (a write-behind store would): they must stay intact
}

type keptEvent struct {
	ev   *eb.Event
	ty   string
	data string
}

// checkKept: what Append was handed is still what it was handed
func (s *recStore) checkKept() {
	for _, k := range s.kept {
		if k.ev.Type != k.ty || string(k.ev.Data) != k.data {
			s.cs.emit("!store-event-mutated the *Event handed to Append (type %q) reads type %q later on", k.ty, k.ev.Type)
			return
		}
	}
}

func tyOfName(name string) int {
	if name == "json.RawMessage" {
		return 40
	}
	if strings.HasPrefix(name, "main.G46[") {
		return 46
	}
	if strings.HasPrefix(name, "main.U0") {
		return 40 + atoi(name[len("main.U0"):])
	}
	if strings.HasPrefix(name, "n") && strings.Contains(name, ".v") {
		return atoi(name[1:strings.Index(name, ".v")])
	}
	if i := strings.LastIndex(name, "T"); i >= 0 {
		return atoi(name[i+1:])
	}
	return 999
}

// nameOK checks a value-dependent custom type name ("nXX.vK") against the event value.
func nameOK(name string, v int) bool {
	if strings.HasPrefix(name, "n") && strings.Contains(name, ".v") {
		return atoi(name[strings.Index(name, ".v")+2:]) == v%2
	}
	return true
}

func depthOf(ctx context.Context) int {
	if p, ok := ctx.Value(pubKey).(*pubInfo); ok && p != nil {
		return p.depth
	}
	return -1
}

func (s *recStore) Append(ctx context.Context, e *eb.Event) (eb.Offset, error) {
	cs := s.cs
	s.kept = append(s.kept, keptEvent{e, e.Type, string(e.Data)})
	var pl struct {
		V int `json:"v"`
	}
	_ = json.Unmarshal(e.Data, &pl)
	if !nameOK(e.Type, pl.V) {
		cs.emit("!stored-type-name %s for value %d", e.Type, pl.V)
	}
	fails := false
	var failure error = errors.New("injected append failure")
	if len(cs.faults) > 0 {
		fails = cs.faults[0] != 0
		if cs.faults[0] == 2 && cs.ptimeout {
			<-ctx.Done() // a store that hangs until the persistence timeout expires, and says so
			failure = fmt.Errorf("append gave up: %w", ctx.Err())
		}
		cs.faults = cs.faults[1:]
	}
	if fails {
		cs.emit("append %d %d %d %d 0 0", depthOf(ctx), s.sid, tyOfName(e.Type), pl.V)
		return "", failure
	}
	off, err := s.inner.Append(ctx, e)
	cs.emit("append %d %d %d %d %s %d", depthOf(ctx), s.sid, tyOfName(e.Type), pl.V, b01(err == nil), atoi(strings.TrimLeft(string(off), "0")))
	return off, err
}

func (s *recStore) Read(ctx context.Context, from eb.Offset, limit int) ([]*eb.StoredEvent, eb.Offset, error) {
	return s.inner.Read(ctx, from, limit)
}

// ---- recording Observability ----

type recObs struct{ cs *busCase }

func obsOf(ctx context.Context) int {
	if v, ok := ctx.Value(obsKey).(int); ok {
		return v
	}
	return 0
}

func (o recObs) start(ctx context.Context, kind string, ty string, flag bool) context.Context {
	cs := o.cs
	id := cs.nextObs
	cs.nextObs++
	cs.emit("obs %d %s %d %d %d %s", depthOf(ctx), kind, id, obsOf(ctx), tyOfName(ty), b01(flag))
	return context.WithValue(ctx, obsKey, id)
}

func (o recObs) OnPublishStart(ctx context.Context, eventType string, event any) context.Context {
	return o.start(ctx, "ps", eventType, false)
}
func (o recObs) OnPublishComplete(ctx context.Context, eventType string) {
	o.cs.emit("obs %d pc %d 0 %d 0", depthOf(ctx), obsOf(ctx), tyOfName(eventType))
}
func (o recObs) OnHandlerStart(ctx context.Context, eventType string, async bool) context.Context {
	ctx = context.WithValue(ctx, obsTyKey{}, eventType)
	return o.start(ctx, "hs", eventType, async)
}
func (o recObs) OnHandlerComplete(ctx context.Context, d time.Duration, err error) {
	ty, _ := ctx.Value(obsTyKey{}).(string)
	o.cs.emit("obs %d hc %d 0 %d %s", depthOf(ctx), obsOf(ctx), tyOfName(ty), b01(err != nil))
}
func (o recObs) OnPersistStart(ctx context.Context, eventType string, position int64) context.Context {
	ctx = context.WithValue(ctx, obsTyKey{}, eventType)
	return o.start(ctx, "rs", eventType, false)
}
func (o recObs) OnPersistComplete(ctx context.Context, d time.Duration, err error) {
	ty, _ := ctx.Value(obsTyKey{}).(string)
	o.cs.emit("obs %d rc %d 0 %d %s", depthOf(ctx), obsOf(ctx), tyOfName(ty), b01(err != nil))
}

type obsTyKey struct{}

// ---- per-type operations (generic) ----

type regSpec struct {
	ty, hid          int
	once, async, seq bool
	filtM, filtR     int  // filtM == 0: no filter
	filtCancels      bool // the filter cancels the context of the publish it is evaluated for
	body             int
}

type typeOps struct {
	subscribe    func(cs *busCase, r regSpec)
	subscribeNil func(cs *busCase, hid int) error
	unsubscribe  func(cs *busCase, hid int) error
	clear        func(cs *busCase)
	has          func(cs *busCase) bool
	count        func(cs *busCase) int
	publish      func(cs *busCase, ctx context.Context, v int, bad bool, p *pubInfo)
}

// handle is the body of every handler closure.
func (cs *busCase) handle(rid int, lit int, ctx context.Context, e any, ty int) {
	v, p := getVP(e)
	async := false
	cs.mu.Lock()
	if cs.asyncEntry {
		async = true
		cs.asyncEntry = false
	}
	cs.mu.Unlock()
	saved := cs.cur
	cs.cur = frame{depth: p.depth + 1, ctx: ctx, ctxAware: ctx != nil, info: p}
	ctxs := "-"
	if ctx != nil {
		if pi, ok := ctx.Value(pubKey).(*pubInfo); ok && pi != nil {
			ctxs = fmt.Sprint(pi.root)
		} else {
			ctxs = "0"
		}
	}
	cs.emit("enter %d %d %d %d %s %s", cs.cur.depth, rid, ty, v, ctxs, b01(async))
	if ctx != nil && p.cancel != nil && ctx.Done() == nil {
		cs.emit("!ctx-not-cancellable the publish context can be cancelled, the context handed to the handler cannot")
	}
	cs.calls++
	defer func() {
		cs.emit("exit %d %d", p.depth+1, rid)
		cs.cur = saved
	}()
	_ = lit
	cs.runBody(cs.bodies[cs.bodyOf(rid)])
}

//go:noinline
func plainLit[T any](cs *busCase, ty, hid, rid int) func(T) {
	switch hid {
	case 0:
		return func(e T) { cs.handle(rid, 0, nil, e, ty) }
	case 1:
		return func(e T) { cs.handle(rid, 1, nil, e, ty) }
	case 2:
		return func(e T) { cs.handle(rid, 2, nil, e, ty) }
	case 3:
		return func(e T) { cs.handle(rid, 3, nil, e, ty) }
	case 4:
		return func(e T) { cs.handle(rid, 4, nil, e, ty) }
	default:
		return func(e T) { cs.handle(rid, 5, nil, e, ty) }
	}
}

//go:noinline
func ctxLit[T any](cs *busCase, ty, hid, rid int) func(context.Context, T) {
	switch hid {
	case 6:
		return func(c context.Context, e T) { cs.handle(rid, 6, c, e, ty) }
	case 7:
		return func(c context.Context, e T) { cs.handle(rid, 7, c, e, ty) }
	case 8:
		return func(c context.Context, e T) { cs.handle(rid, 8, c, e, ty) }
	case 9:
		return func(c context.Context, e T) { cs.handle(rid, 9, c, e, ty) }
	case 10:
		return func(c context.Context, e T) { cs.handle(rid, 10, c, e, ty) }
	default:
		return func(c context.Context, e T) { cs.handle(rid, 11, c, e, ty) }
	}
}

var sharedOnce, sharedAsync, sharedSequential = eb.Once(), eb.Async(), eb.Sequential()

// panic values with a twist: formatting them runs user code that may itself misbehave
type nilDerefErr struct{ msg string }

func (e *nilDerefErr) Error() string { return e.msg } // panics on a nil receiver

type panickyStringer struct{ k int }

func (p panickyStringer) String() string { panic("String() of a panic value panics") }

func panicValue(k int) any {
	switch k {
	case 8:
		var e *nilDerefErr // the classic typed-nil error
		return error(e)
	case 7:
		return panickyStringer{7}
	case 6:
		return errors.New("6")
	case 5:
		return "5" + strings.Repeat("x", 240) // "handler panic: " + 241 bytes = 256 bytes
	case 4:
		return "reflect: call of reflect.Value.SetInt on zero Value (4)" // what package reflect itself panics with
	}
	return k
}

func panicCode(v any) string {
	switch x := v.(type) {
	case *nilDerefErr:
		if x == nil {
			return "8"
		}
	case panickyStringer:
		return "7"
	case error:
		return x.Error()
	case string:
		if strings.HasPrefix(x, "5x") {
			return "5"
		}
		if strings.HasPrefix(x, "reflect: ") {
			return "4"
		}
	}
	return fmt.Sprint(v)
}

func mkOps[T any](ty int, mk func(v int, bad any, p *pubInfo) T) typeOps {
	return typeOps{
		subscribe: func(cs *busCase, r regSpec) {
			rid := cs.nextRid
			cs.nextRid++
			cs.ridBody[rid] = r.body
			// option values are created once and reused for every subscription (a caller may keep
			// `opts := []SubscribeOption{Once(), Async()}` around): they must not carry per-subscription state
			var opts []eb.SubscribeOption
			if r.once {
				opts = append(opts, sharedOnce)
			}
			if r.async {
				opts = append(opts, sharedAsync)
			}
			if r.seq {
				opts = append(opts, sharedSequential)
			}
			if r.filtM > 0 {
				pred := func(e T) bool {
					v, p := getVP(e)
					ok := v%r.filtM == r.filtR
					cs.emit("filt %d %d %d %s", p.depth, rid, v, b01(ok))
					if r.filtCancels && p.cancel != nil {
						p.cancel() // user code between the cancellation check and the handler start
					}
					return ok
				}
				kind := (rid + r.filtM) % 4
				var zero T
				if _, isBusEvt := any(zero).(busEvt); kind == 1 && !isBusEvt {
					kind = 3 // (an event type that does not implement the interface: a predicate over it would not apply)
				}
				switch kind {
				case 1:
					// a predicate over an interface the event type implements (WithFilter's type parameter is independent of
					// the subscription's): it has to be applied all the same
					opts = append(opts, eb.WithFilter(func(e busEvt) bool { return pred(e.(T)) }))
				case 3:
					opts = append(opts, eb.WithFilter(func(e any) bool { return pred(e.(T)) }))
				default:
					opts = append(opts, eb.WithFilter(pred))
				}
			}
			var err error
			if r.hid >= 6 {
				err = eb.SubscribeContext(cs.bus, ctxLit[T](cs, ty, r.hid, rid), opts...)
			} else {
				err = eb.Subscribe(cs.bus, plainLit[T](cs, ty, r.hid, rid), opts...)
			}
			if err != nil {
				cs.emit("!subscribe-error %v", err)
			}
		},
		subscribeNil: func(cs *busCase, hid int) error {
			if hid >= 6 {
				return eb.SubscribeContext(cs.bus, ctxLit[T](cs, ty, hid, -2), sharedOnce, nil)
			}
			return eb.Subscribe(cs.bus, plainLit[T](cs, ty, hid, -2), sharedOnce, nil)
		},
		unsubscribe: func(cs *busCase, hid int) error {
			if hid >= 6 {
				return eb.Unsubscribe[T](cs.bus, ctxLit[T](cs, ty, hid, -1))
			}
			return eb.Unsubscribe[T](cs.bus, plainLit[T](cs, ty, hid, -1))
		},
		clear: func(cs *busCase) { eb.Clear[T](cs.bus) },
		has:   func(cs *busCase) bool { return eb.HasHandlers[T](cs.bus) },
		count: func(cs *busCase) int { return eb.HandlerCount[T](cs.bus) },
		publish: func(cs *busCase, ctx context.Context, v int, bad bool, p *pubInfo) {
			var b any
			if bad {
				b = make(chan int)
			}
			if v%5 == 3 {
				// the event held in an interface variable: `var ev any = E{…}; Publish(bus, ev)` reaches the handlers of E
				// through the reflection path of the dispatcher
				eb.PublishContext[any](cs.bus, ctx, any(mk(v, b, p)))
				return
			}
			eb.PublishContext(cs.bus, ctx, mk(v, b, p))
		},
	}
}

// ---- the interpreter ----

func (cs *busCase) bodyOf(rid int) int { return cs.ridBody[rid] }

func parseAct(f []string) (action, bool) {
	if len(f) == 0 {
		return action{}, false
	}
	switch f[0] {
	case "sub", "unsub", "clear", "clearall", "pub", "cancel", "cancelid", "panic", "has", "count", "drain", "readlog", "wait", "subnil", "setpanich", "sethook", "setperrh":
		return action{f[0], f[1:]}, true
	}
	return action{}, false
}

func (cs *busCase) runBody(acts []action) {
	for _, a := range acts {
		cs.do(a)
	}
}

func (cs *busCase) do(a action) {
	d := cs.cur.depth
	arg := func(i int) int { return atoi(a.args[i]) }
	switch a.op {
	case "sub":
		r := regSpec{ty: arg(0), hid: arg(1), once: a.args[2] == "1", async: a.args[3] == "1", seq: a.args[4] == "1", body: arg(6)}
		if a.args[5] != "-" {
			mr := strings.Split(a.args[5], ":")
			r.filtM, r.filtR = atoi(mr[0]), atoi(mr[1])
			r.filtCancels = len(mr) > 2 && mr[2] == "c"
		}
		allOps[r.ty].subscribe(cs, r)
	case "unsub":
		err := allOps[arg(0)].unsubscribe(cs, arg(1))
		cs.emit("unsub %d %d %d %s", d, arg(0), arg(1), b01(err == nil))
	case "clear":
		allOps[arg(0)].clear(cs)
	case "clearall":
		eb.ClearAll(cs.bus)
	case "has":
		cs.emit("has %d %d %s", d, arg(0), b01(allOps[arg(0)].has(cs)))
	case "count":
		cs.emit("count %d %d %d", d, arg(0), allOps[arg(0)].count(cs))
	case "pub":
		if d >= cs.maxDepth || cs.calls >= 300 {
			cs.emit("deep %d", d)
			return
		}
		info := &pubInfo{depth: d}
		var ctx context.Context
		switch a.args[3] {
		case "fresh", "dead":
			c, cancel := context.WithCancel(context.Background())
			if a.args[3] == "dead" && cs.nextCtx%2 == 0 {
				// a context that is over because its deadline has passed, not because somebody cancelled it
				c, cancel = context.WithDeadline(context.Background(), time.Now().Add(-time.Second))
			} else if a.args[3] == "fresh" && cs.nextCtx%3 == 1 {
				// a live context that carries a deadline of its own, far away: the caller's deadline bounds the whole publish,
				// it does not stand in for the persistence timeout
				c, cancel = context.WithDeadline(context.Background(), time.Now().Add(time.Hour))
			}
			info.root = cs.nextCtx
			cs.nextCtx++
			info.cancel = cancel
			cs.cancels[info.root] = cancel
			if a.args[3] == "dead" {
				cancel()
			}
			ctx = context.WithValue(c, pubKey, info)
		case "inherit":
			if cs.cur.ctxAware && cs.cur.ctx != nil {
				info.root = cs.cur.info.root
				info.cancel = cs.cur.info.cancel
				ctx = context.WithValue(cs.cur.ctx, pubKey, info)
			} else {
				ctx = context.WithValue(context.Background(), pubKey, info)
			}
		default:
			ctx = context.WithValue(context.Background(), pubKey, info)
		}
		allOps[arg(0)].publish(cs, ctx, arg(1), a.args[2] == "1", info)
	case "cancel":
		if cs.cur.info != nil && cs.cur.info.cancel != nil {
			cs.cur.info.cancel()
			// a context-aware handler's context carries the cancellation of the publish context it was called for
			if cs.cur.ctxAware && cs.cur.ctx != nil && cs.cur.ctx.Err() == nil {
				cs.emit("!ctx-cancellation-not-propagated the publish context was cancelled, the context handed to the handler is still live")
			}
		}
	case "cancelid":
		if c, ok := cs.cancels[arg(0)]; ok {
			c()
		}
	case "panic":
		if d == 0 {
			return
		}
		panic(panicValue(arg(0)))
	case "subnil":
		// a nil option is refused and must leave no trace of the attempted subscription
		if err := allOps[arg(0)].subscribeNil(cs, arg(1)); err == nil {
			cs.emit("!subscribe-with-nil-option was accepted")
		}
	case "setpanich":
		// the setter, used between publishes: from now on panics are reported to this handler (or to none)
		if arg(0) == 1 {
			cs.bus.SetPanicHandler(cs.panicHandler("panich2"))
		} else {
			cs.bus.SetPanicHandler(nil)
		}
	case "sethook":
		// the legacy hook setters, used between publishes: they replace the legacy hook of that phase (nil removes it)
		// and nothing else
		var h eb.PublishHook
		kind := a.args[0]
		if a.args[1] == "1" {
			h = func(t reflect.Type, e any) { cs.hook(kind, t, e) }
		}
		if kind == "bl" {
			cs.bus.SetBeforePublishHook(h)
		} else {
			cs.bus.SetAfterPublishHook(h)
		}
	case "setperrh":
		if arg(0) == 1 {
			cs.bus.SetPersistenceErrorHandler(cs.perrHandler())
		} else {
			cs.bus.SetPersistenceErrorHandler(nil)
		}
	case "readlog":
		st := cs.bus.GetStore()
		if st == nil {
			cs.emit("log %d -", d)
			return
		}
		evs, _, err := st.Read(context.Background(), eb.OffsetOldest, 0)
		if err != nil {
			cs.emit("!readlog %v", err)
			return
		}
		var parts []string
		for _, e := range evs {
			var pl struct {
				V int `json:"v"`
			}
			_ = json.Unmarshal(e.Data, &pl)
			parts = append(parts, fmt.Sprintf("%d:%d", tyOfName(e.Type), pl.V))
		}
		if len(parts) == 0 {
			cs.emit("log %d -", d)
		} else {
			cs.emit("log %d %s", d, strings.Join(parts, ","))
		}
	case "drain":
		if d != 0 {
			return
		}
		cs.drain()
	case "wait":
		cs.drain()
		done := make(chan struct{})
		go func() { cs.bus.Wait(); close(done) }()
		select {
		case <-done:
		case <-time.After(3 * time.Second):
			cs.emit("!HANG Wait did not return")
			cs.hung = true
		}
	}
}

func (cs *busCase) drain() {
	for {
		cs.mu.Lock()
		if len(cs.pending) == 0 {
			cs.mu.Unlock()
			return
		}
		n := cs.pending[0]
		cs.pending = cs.pending[1:]
		g := cs.gates[n]
		cs.asyncEntry = true
		cs.mu.Unlock()
		close(g)
		select {
		case <-cs.ended:
		case <-time.After(3 * time.Second):
			cs.emit("!HANG async invocation %d did not finish", n)
			cs.hung = true
			return
		}
		cs.mu.Lock()
		cs.asyncEntry = false
		cs.mu.Unlock()
	}
}

func busYield(point string, h uintptr, n uint64) {
	cs := curBus
	if cs == nil {
		return
	}
	switch point {
	case "publish.spawn":
		cs.mu.Lock()
		cs.pending = append(cs.pending, n)
		cs.gates[n] = make(chan struct{})
		cs.mu.Unlock()
	case "async.start":
		cs.mu.Lock()
		g := cs.gates[n]
		cs.mu.Unlock()
		if g != nil {
			<-g
		}
	case "async.end":
		cs.mu.Lock()
		_, mine := cs.gates[n]
		cs.mu.Unlock()
		if mine {
			cs.ended <- n
		}
	}
}

type busCaseExt struct{}

func busDomain(lines []string) []string {
	cs := &busCase{bodies: map[int][]action{}, cancels: map[int]context.CancelFunc{}, nextCtx: 1, nextObs: 1, maxDepth: 3,
		stores: map[int]*recStore{}, gates: map[uint64]chan struct{}{}, ended: make(chan uint64, 1024)}
	cs.ridBody = map[int]int{}
	curBus = cs
	eb.VerifYield = busYield
	defer func() { curBus = nil }()
	var opts []eb.Option
	var main []action
	for _, line := range lines {
		f := strings.Fields(line)
		switch f[0] {
		case "opts":
			for _, w := range f[1:] {
				switch {
				case strings.HasPrefix(w, "store"):
					sid := atoi(w[5:])
					st, ok := cs.stores[sid]
					if !ok {
						st = &recStore{cs: cs, sid: sid, inner: eb.NewMemoryStore()}
						cs.stores[sid] = st
					}
					opts = append(opts, eb.WithStore(st))
				case w == "bl":
					opts = append(opts, eb.WithBeforePublish(func(t reflect.Type, e any) { cs.hook("bl", t, e) }))
				case w == "al":
					opts = append(opts, eb.WithAfterPublish(func(t reflect.Type, e any) { cs.hook("al", t, e) }))
				case w == "bc":
					opts = append(opts, eb.WithBeforePublishContext(func(c context.Context, t reflect.Type, e any) { cs.hook("bc", t, e) }))
				case w == "ac":
					opts = append(opts, eb.WithAfterPublishContext(func(c context.Context, t reflect.Type, e any) { cs.hook("ac", t, e) }))
				case w == "panich":
					opts = append(opts, eb.WithPanicHandler(cs.panicHandler("panich")))
				case w == "perrh":
					opts = append(opts, eb.WithPersistenceErrorHandler(cs.perrHandler()))
				case w == "ptimeout":
					opts = append(opts, eb.WithPersistenceTimeout(30*time.Millisecond))
					cs.ptimeout = true
				case w == "obs":
					opts = append(opts, eb.WithObservability(recObs{cs}))
				case w == "otel" || w == "otelns":
					o, err := newOtelProbe(w == "otel")
					if err != nil {
						cs.out = append(cs.out, "!otel "+err.Error())
					} else {
						cs.otel = o
						opts = append(opts, eb.WithObservability(o.obs))
					}
				}
			}
		case "maxdepth":
			cs.maxDepth = atoi(f[1])
		case "faults":
			for _, w := range f[1:] {
				cs.faults = append(cs.faults, atoi(w))
			}
		case "body":
			idx := atoi(f[1])
			var acts []action
			var cur []string
			for _, w := range append(f[3:], ";") {
				if w == ";" {
					if a, ok := parseAct(cur); ok {
						acts = append(acts, a)
					}
					cur = nil
				} else {
					cur = append(cur, w)
				}
			}
			cs.bodies[idx] = acts
		default:
			if a, ok := parseAct(f); ok {
				main = append(main, a)
			} else {
				cs.out = append(cs.out, "bad-op "+line)
			}
		}
	}
	cs.bus = eb.New(opts...)
	for _, a := range main {
		cs.do(a)
		if cs.hung {
			return cs.out
		}
	}
	cs.mu.Lock()
	np := len(cs.pending)
	cs.mu.Unlock()
	if np > 0 {
		cs.emit("!pending %d", np)
		cs.drain() // do not leak parked goroutines into the next case
	}
	for _, st := range cs.stores {
		st.checkKept()
	}
	if cs.otel != nil {
		cs.bus.Wait()
		cs.emit("%s", cs.otel.summary())
	}
	return cs.out
}

func (cs *busCase) perrHandler() eb.PersistenceErrorHandler {
	return func(e any, t reflect.Type, err error) {
		v, p := getVP(e)
		cs.emit("perr %d %d %d %s", p.depth, tyOfName(t.String()), v, b01(strings.Contains(err.Error(), "marshal")))
	}
}

// panicHandler: both the option-installed and the setter-installed handler print the same line (the model does
// not distinguish them); which one ran is visible in the ~ information line
func (cs *busCase) panicHandler(which string) eb.PanicHandler {
	return func(e any, ht reflect.Type, val any) {
		v, p := getVP(e)
		if which != "panich" {
			cs.emit("~%s", which)
		}
		cs.emit("panich %d %s %d %d %s", p.depth, b01(ht.NumIn() == 2), tyOfName(reflect.TypeOf(e).String()), v, panicCode(val))
	}
}

func (cs *busCase) hook(kind string, t reflect.Type, e any) {
	v, p := getVP(e)
	if t != reflect.TypeOf(e) {
		cs.emit("!hook-type %s hook called with type %v for an event of type %T", kind, t, e)
	}
	cs.emit("hook %d %s %d %d", p.depth, kind, tyOfName(t.String()), v)
}

func init() { domains["bus"] = busDomain }

package main

import (
	"context"
	"errors"
	"fmt"
	"iter"
	"os"
	"path/filepath"
	"reflect"
	"runtime"
	"sort"
	"strings"
	"sync"
	"time"

	eb "github.com/jilio/ebu"
	ebsql "github.com/jilio/ebu/stores/sqlite"
)

// Domain "resume": SubscribeWithReplay across restarts, with the k-th store operation failing
// and/or the process "dying" right after the k-th store operation (M5).

// RT1 and RT2 carry optional parts that depend on the record number: an event decoded on top of an earlier one (instead
// of into a fresh value) keeps parts it should not have
type RT1 struct {
	R   int
	Opt *int           `json:"opt,omitempty"`
	M   map[string]int `json:"m,omitempty"`
}
type RT2 struct {
	R   int
	Opt *int           `json:"opt,omitempty"`
	M   map[string]int `json:"m,omitempty"`
}

func rtParts(r int) (*int, map[string]int) {
	var opt *int
	var m map[string]int
	if r%2 == 0 {
		v := r
		opt = &v
	}
	if r%3 != 0 {
		m = map[string]int{fmt.Sprintf("k%d", r%3): r}
	}
	return opt, m
}

func mkRT1(r int) RT1 { o, m := rtParts(r); return RT1{r, o, m} }
func mkRT2(r int) RT2 { o, m := rtParts(r); return RT2{r, o, m} }

// faithful returns r if the delivered event is exactly record r, and r + 1000000 otherwise
func faithful(r int, opt *int, m map[string]int) int {
	o, mm := rtParts(r)
	if !reflect.DeepEqual(opt, o) || !reflect.DeepEqual(m, mm) {
		return r + 1000000
	}
	return r
}

type RT3 struct{ R int }

// EventTypeName on the POINTER receiver: RT3 is published and subscribed by value, so the method is not in the
// method set of the event type and every route must use the reflect name "main.RT3"
func (*RT3) EventTypeName() string { return "rt3.custom" }

type fullStore interface {
	eb.EventStore
	eb.EventStoreStreamer
	eb.SubscriptionStore
}

type planStore struct {
	inner      fullStore
	nops       int
	failAt     int
	crashAfter int
	dead       bool
}

var errInjected = errors.New("injected store failure")
var errDead = errors.New("process is dead")

func (p *planStore) tick() (fail bool, crash bool) {
	p.nops++
	return p.nops == p.failAt, p.nops == p.crashAfter
}

func (p *planStore) Append(ctx context.Context, e *eb.Event) (eb.Offset, error) {
	if p.dead {
		return "", errDead
	}
	fail, crash := p.tick()
	var off eb.Offset
	var err error = errInjected
	if !fail {
		off, err = p.inner.Append(ctx, e)
	}
	if crash {
		p.dead = true
	}
	return off, err
}

func (p *planStore) Read(ctx context.Context, from eb.Offset, limit int) ([]*eb.StoredEvent, eb.Offset, error) {
	return p.inner.Read(ctx, from, limit)
}

func (p *planStore) ReadStream(ctx context.Context, from eb.Offset) iter.Seq2[*eb.StoredEvent, error] {
	return func(yield func(*eb.StoredEvent, error) bool) {
		if p.dead {
			yield(nil, errDead)
			return
		}
		fail, crash := p.tick()
		if crash {
			p.dead = true
			yield(nil, errDead)
			return
		}
		if fail {
			yield(nil, errInjected)
			return
		}
		// snapshot semantics (both bundled streaming stores deliver the events present at call time)
		var evs []*eb.StoredEvent
		for e, err := range p.inner.ReadStream(ctx, from) {
			if err != nil {
				yield(nil, err)
				return
			}
			evs = append(evs, e)
		}
		for _, e := range evs {
			if p.dead {
				yield(nil, errDead)
				return
			}
			if !yield(e, nil) {
				return
			}
		}
	}
}

func (p *planStore) SaveOffset(ctx context.Context, id string, off eb.Offset) error {
	if p.dead {
		return errDead
	}
	fail, crash := p.tick()
	var err error = errInjected
	if !fail {
		err = p.inner.SaveOffset(ctx, id, off)
	}
	if crash {
		p.dead = true
	}
	return err
}

func (p *planStore) LoadOffset(ctx context.Context, id string) (eb.Offset, error) {
	if p.dead {
		return "", errDead
	}
	fail, crash := p.tick()
	var off eb.Offset
	var err error = errInjected
	if !fail {
		off, err = p.inner.LoadOffset(ctx, id)
	}
	if crash {
		p.dead = true
	}
	return off, err
}

// pagedStore is a store WITHOUT ReadStream whose Read returns pages of at most two events whatever the limit (the
// limit is an upper bound): Replay has to go on reading until a page comes back empty. The first Read after a
// LoadOffset counts as the store operation the streaming variant performs at that point (fault / crash plan).
type pagedStore struct {
	p     *planStore
	first bool
}

func (s *pagedStore) Append(ctx context.Context, e *eb.Event) (eb.Offset, error) {
	return s.p.Append(ctx, e)
}
func (s *pagedStore) SaveOffset(ctx context.Context, id string, off eb.Offset) error {
	return s.p.SaveOffset(ctx, id, off)
}
func (s *pagedStore) LoadOffset(ctx context.Context, id string) (eb.Offset, error) {
	s.first = true
	return s.p.LoadOffset(ctx, id)
}
func (s *pagedStore) Read(ctx context.Context, from eb.Offset, limit int) ([]*eb.StoredEvent, eb.Offset, error) {
	if s.p.dead {
		return nil, from, errDead
	}
	if s.first {
		s.first = false
		fail, crash := s.p.tick()
		if crash {
			s.p.dead = true
			return nil, from, errDead
		}
		if fail {
			return nil, from, errInjected
		}
	}
	if limit <= 0 || limit > 2 {
		limit = 2
	}
	return s.p.inner.Read(ctx, from, limit)
}

// slowStore widens the window between an append and what the bus does next.
type slowStore struct {
	inner *eb.MemoryStore
	mu    sync.Mutex
	saves []eb.Offset
	n     int
}

func (s *slowStore) Append(ctx context.Context, e *eb.Event) (eb.Offset, error) {
	off, err := s.inner.Append(ctx, e)
	s.mu.Lock()
	s.n++
	k := s.n
	s.mu.Unlock()
	if k%3 == 0 {
		time.Sleep(50 * time.Microsecond)
	} else {
		runtime.Gosched()
	}
	return off, err
}
func (s *slowStore) Read(ctx context.Context, from eb.Offset, limit int) ([]*eb.StoredEvent, eb.Offset, error) {
	return s.inner.Read(ctx, from, limit)
}
func (s *slowStore) SaveOffset(ctx context.Context, id string, off eb.Offset) error {
	s.mu.Lock()
	s.saves = append(s.saves, off)
	s.mu.Unlock()
	return s.inner.SaveOffset(ctx, id, off)
}
func (s *slowStore) LoadOffset(ctx context.Context, id string) (eb.Offset, error) {
	return s.inner.LoadOffset(ctx, id)
}

// subView is an explicit SubscriptionStore (WithSubscriptionStore): offsets go to a store of their own, while the event
// store keeps its own, untouched, offset table; store operations are counted by the same plan
type subView struct {
	p      *planStore
	inner  eb.SubscriptionStore
	onLoad func()
}

func (v *subView) SaveOffset(ctx context.Context, id string, off eb.Offset) error {
	if v.p.dead {
		return errDead
	}
	fail, crash := v.p.tick()
	var err error = errInjected
	if !fail {
		err = v.inner.SaveOffset(ctx, id, off)
	}
	if crash {
		v.p.dead = true
	}
	return err
}

func (v *subView) LoadOffset(ctx context.Context, id string) (eb.Offset, error) {
	if v.p.dead {
		return "", errDead
	}
	if v.onLoad != nil {
		v.onLoad()
	}
	fail, crash := v.p.tick()
	var off eb.Offset
	var err error = errInjected
	if !fail {
		off, err = v.inner.LoadOffset(ctx, id)
	}
	if crash {
		v.p.dead = true
	}
	return off, err
}

type resumeCase struct {
	paged     bool
	sub       *subView // explicit subscription store, if any
	subFirst  bool     // WithSubscriptionStore is given before WithStore
	ps        *planStore
	bus       *eb.EventBus
	delivered map[int][]int
	ids       []int
}

func (rc *resumeCase) newBus() *eb.EventBus {
	var st eb.EventStore = rc.ps
	if rc.sub != nil {
		rc.sub.onLoad = nil
	}
	if rc.paged {
		pg := &pagedStore{p: rc.ps}
		st = pg
		if rc.sub != nil {
			rc.sub.onLoad = func() { pg.first = true }
		}
	}
	if rc.sub != nil {
		if rc.subFirst {
			return eb.New(eb.WithSubscriptionStore(rc.sub), eb.WithStore(st))
		}
		return eb.New(eb.WithStore(st), eb.WithSubscriptionStore(rc.sub))
	}
	return eb.New(eb.WithStore(st))
}

func (rc *resumeCase) publishTy(ty, r int) {
	switch ty {
	case 1:
		eb.Publish(rc.bus, mkRT1(r))
	case 2:
		eb.Publish(rc.bus, mkRT2(r))
	default:
		eb.Publish(rc.bus, RT3{r})
	}
}

func resumeSub[T any](rc *resumeCase, id int, get func(T) int, pubDuring []int) error {
	first := true
	defer func() { first = false }() // the re-entrant publish happens during the replay only
	return eb.SubscribeWithReplay(context.Background(), rc.bus, fmt.Sprintf("sub%d", id), func(e T) {
		if rc.ps.dead {
			return
		}
		rc.delivered[id] = append(rc.delivered[id], get(e))
		if first && len(pubDuring) == 2 {
			first = false
			rc.publishTy(pubDuring[0], pubDuring[1])
		}
		first = false
	})
}

func resumeDomain(lines []string) []string {
	var out []string
	rc := &resumeCase{delivered: map[int][]int{}}
	var cleanup []func()
	defer func() {
		for _, c := range cleanup {
			c()
		}
	}()
	kind := "mem"
	failAt, crashAfter := 0, 0
	ctx := context.Background()
	start := func() error {
		if rc.ps != nil {
			return nil
		}
		var inner fullStore
		sqlSub := strings.HasSuffix(kind, "+sqlsub") // positions in the SQLite store, which keeps them as integers
		split := strings.HasSuffix(kind, "+sub") || strings.HasSuffix(kind, "+bus") || sqlSub
		rc.subFirst = strings.HasSuffix(kind, "+bus")
		kind = strings.TrimSuffix(strings.TrimSuffix(strings.TrimSuffix(kind, "+sub"), "+bus"), "+sqlsub")
		rc.paged = kind == "paged"
		if kind == "sqlite" {
			dir, _ := os.MkdirTemp("", "verifresume")
			cleanup = append(cleanup, func() { os.RemoveAll(dir) })
			s, err := ebsql.New(filepath.Join(dir, "db.sqlite"))
			if err != nil {
				return err
			}
			cleanup = append(cleanup, func() { s.Close() })
			inner = s
		} else {
			inner = eb.NewMemoryStore()
		}
		rc.ps = &planStore{inner: inner, failAt: failAt, crashAfter: crashAfter}
		if split {
			// the offsets live in a store of their own: a separate MemoryStore, which keeps offset strings verbatim
			// (the SQLite store re-formats the offsets it is given, so it can only keep its own)
			var subInner eb.SubscriptionStore = eb.NewMemoryStore()
			if sqlSub {
				dir, _ := os.MkdirTemp("", "verifresumesub")
				cleanup = append(cleanup, func() { os.RemoveAll(dir) })
				s, err := ebsql.New(filepath.Join(dir, "sub.sqlite"))
				if err != nil {
					return err
				}
				cleanup = append(cleanup, func() { s.Close() })
				subInner = s
			}
			rc.sub = &subView{p: rc.ps, inner: subInner}
		}
		rc.bus = rc.newBus()
		return nil
	}
	seen := map[int]bool{}
	for _, line := range lines {
		f := strings.Fields(line)
		switch f[0] {
		case "kind":
			kind = f[1]
			continue
		case "plan":
			failAt, crashAfter = optInt(f[1]), optInt(f[2])
			if failAt < 0 {
				failAt = 0
			}
			if crashAfter < 0 {
				crashAfter = 0
			}
			continue
		}
		if err := start(); err != nil {
			return append(out, "!store "+err.Error())
		}
		switch f[0] {
		case "pub":
			rc.publishTy(atoi(f[1]), atoi(f[2]))
			out = append(out, "pub")
		case "sub":
			id, ty := atoi(f[1]), atoi(f[2])
			if !seen[id] {
				seen[id] = true
				rc.ids = append(rc.ids, id)
			}
			var pd []int
			if len(f) > 3 && f[3] != "-" {
				ab := strings.Split(f[3], ":")
				pd = []int{atoi(ab[0]), atoi(ab[1])}
			}
			var err error
			switch ty {
			case 1:
				err = resumeSub(rc, id, func(e RT1) int { return faithful(e.R, e.Opt, e.M) }, pd)
			case 2:
				err = resumeSub(rc, id, func(e RT2) int { return faithful(e.R, e.Opt, e.M) }, pd)
			default:
				err = resumeSub(rc, id, func(e RT3) int { return e.R }, pd)
			}
			if rc.ps.dead {
				out = append(out, "sub died")
			} else if err != nil {
				out = append(out, "sub err")
			} else {
				out = append(out, "sub ok")
			}
		case "racepub":
			// concurrent publishers on a persistent bus with a live resumable subscription: every
			// publish is recorded once with strictly increasing offsets in log order, and the
			// subscription's saved offset never moves backwards
			g, n := atoi(f[1]), atoi(f[2])
			st := &slowStore{inner: eb.NewMemoryStore()}
			b := eb.New(eb.WithStore(st))
			_ = eb.SubscribeWithReplay(context.Background(), b, "r", func(e RT1) {})
			var wg sync.WaitGroup
			for i := 0; i < g; i++ {
				wg.Add(1)
				go func(i int) {
					defer wg.Done()
					for k := 0; k < n; k++ {
						eb.Publish(b, mkRT1(i*1000+k))
					}
				}(i)
			}
			wg.Wait()
			evs, _, _ := st.inner.Read(context.Background(), eb.OffsetOldest, 0)
			verdict := "racepub ok"
			if len(evs) != g*n {
				verdict = fmt.Sprintf("!racepub %d publishes produced %d records", g*n, len(evs))
			}
			prev := eb.Offset("")
			for _, e := range evs {
				if !(prev < e.Offset) {
					verdict = fmt.Sprintf("!racepub records out of offset order: %s then %s", prev, e.Offset)
					break
				}
				prev = e.Offset
			}
			st.mu.Lock()
			for i := 1; i < len(st.saves); i++ {
				if st.saves[i] < st.saves[i-1] {
					verdict = fmt.Sprintf("!racepub saved offset moved backwards: %s then %s", st.saves[i-1], st.saves[i])
					break
				}
			}
			st.mu.Unlock()
			out = append(out, verdict)
			continue
		case "livechain":
			// livechain <kind> <n> <two>: handlers of resumable subscriptions that publish while they handle a LIVE event – the
			// handler of subscription "a" re-publishes its own type until record n (and, with <two>, subscription "b" on a
			// second type plays ping-pong with it). Handlers may call back into the bus: nothing may block, every record is
			// handed over once, in order, and the saved offsets end at the last record
			out = append(out, liveChain(f[1], atoi(f[2]), f[3] == "1"))
			continue
		case "livepanic":
			// livepanic <kind> <n> <k> <async>: the handler of a resumable subscription panics while it handles LIVE event k of
			// n. The panic is contained like any other (C05): the publish returns, the handler subscribed after it still
			// gets the event, the panic handler hears of it once, and the bus stays usable – every later publish returns and
			// reaches both handlers, Wait returns
			out = append(out, livePanic(f[1], atoi(f[2]), atoi(f[3]), f[4] == "1"))
			continue
		case "panicresume":
			// panicresume <kind> <n> <k>: the process dies INSIDE the handler (a panic that unwinds SubscribeWithReplay) while
			// event k of n is being replayed; after the restart the subscription is handed event k again (its position was
			// not saved: the handler had not returned) and then the rest: nothing is lost, nothing else is repeated
			out = append(out, panicResume(f[1], atoi(f[2]), atoi(f[3])))
			continue
		case "cancelresume":
			// cancelresume <batch> <n> <k>: a resumable subscription over the real SQLite store (streaming in batches of
			// <batch>, 0 = unbatched) whose catch-up context is cancelled while event k of n is being handled; positions
			// live in an explicit subscription store that ignores contexts. Whatever the driver notices of the
			// cancellation: a catch-up that returns nil has delivered everything, a failed one is retried, and over
			// retries, one live event and a restart the subscription is handed every event exactly once, in log order
			out = append(out, cancelResume(atoi(f[1]), atoi(f[2]), atoi(f[3])))
			continue
		case "restart":
			out = append(out, "restart")
		default:
			out = append(out, "bad-op "+line)
			continue
		}
		// a dead process is replaced by a new one; so is a restarted one
		if rc.ps.dead || f[0] == "restart" {
			rc.ps.dead = false
			rc.bus = rc.newBus()
		}
	}
	if rc.ps == nil {
		return append(out, "log -", "nops 0")
	}
	// final dump, read from the inner store
	sort.Ints(rc.ids)
	for _, id := range rc.ids {
		var offsets eb.SubscriptionStore = rc.ps.inner
		if rc.sub != nil {
			offsets = rc.sub.inner
		}
		off, _ := offsets.LoadOffset(ctx, fmt.Sprintf("sub%d", id))
		out = append(out, fmt.Sprintf("id %d saved=%d delivered=%s", id, atoi(strings.TrimLeft(string(off), "0")), showNatList(rc.delivered[id])))
		if rc.sub != nil {
			// the event store's own offset table must stay untouched
			off, _ := rc.ps.inner.LoadOffset(ctx, fmt.Sprintf("sub%d", id))
			out = append(out, fmt.Sprintf("evstore-saved %d %d", id, atoi(strings.TrimLeft(string(off), "0"))))
		}
	}
	evs, _, _ := rc.ps.inner.Read(ctx, eb.OffsetOldest, 0)
	var parts []string
	for _, e := range evs {
		var r struct{ R int }
		_ = jsonUnmarshal(e.Data, &r)
		parts = append(parts, fmt.Sprintf("%s:%d", e.Type[len(e.Type)-1:], r.R))
	}
	if len(parts) == 0 {
		parts = []string{"-"}
	}
	out = append(out, "log "+strings.Join(parts, ","), fmt.Sprintf("nops %d", rc.ps.nops))
	return out
}

func liveChain(kind string, n int, two bool) string {
	var st fullStore
	if kind == "sqlite" {
		dir, _ := os.MkdirTemp("", "veriflivechain")
		defer os.RemoveAll(dir)
		s, err := ebsql.New(filepath.Join(dir, "db.sqlite"))
		if err != nil {
			return "!livechain store " + err.Error()
		}
		defer s.Close()
		st = s
	} else {
		st = eb.NewMemoryStore()
	}
	bus := eb.New(eb.WithStore(st))
	var gotA, gotB []int
	errA := eb.SubscribeWithReplay(context.Background(), bus, "a", func(e RT1) {
		gotA = append(gotA, e.R)
		if e.R < n {
			if two {
				eb.Publish(bus, mkRT2(e.R+1))
			} else {
				eb.Publish(bus, mkRT1(e.R+1))
			}
		}
	})
	errB := eb.SubscribeWithReplay(context.Background(), bus, "b", func(e RT2) {
		gotB = append(gotB, e.R)
		if e.R < n {
			eb.Publish(bus, mkRT1(e.R+1))
		}
	})
	if errA != nil || errB != nil {
		return fmt.Sprintf("!livechain subscribe: %v %v", errA, errB)
	}
	done := make(chan struct{})
	go func() { eb.Publish(bus, mkRT1(1)); close(done) }()
	select {
	case <-done:
	case <-time.After(12 * time.Second):
		return fmt.Sprintf("!livechain a handler of a resumable subscription that publishes blocks the publish for ever (after %s / %s)", showNatList(gotA), showNatList(gotB))
	}
	var wantA, wantB []int
	for i := 1; i <= n; i++ {
		if two && i%2 == 0 {
			wantB = append(wantB, i)
		} else {
			wantA = append(wantA, i)
		}
	}
	if !reflect.DeepEqual(gotA, wantA) || !reflect.DeepEqual(gotB, wantB) {
		return fmt.Sprintf("!livechain records 1..%d were handed over as a=%s b=%s", n, showNatList(gotA), showNatList(gotB))
	}
	evs, _, _ := st.Read(context.Background(), eb.OffsetOldest, 0)
	if len(evs) != n {
		return fmt.Sprintf("!livechain %d publishes left %d records", n, len(evs))
	}
	offA, _ := st.LoadOffset(context.Background(), "a")
	if offA != evs[len(evs)-1].Offset {
		return fmt.Sprintf("!livechain saved offset of a is %q after the chain, the last record is %q", offA, evs[len(evs)-1].Offset)
	}
	return "livechain ok"
}

func livePanic(kind string, n, k int, async bool) string {
	var st fullStore
	if kind == "sqlite" {
		dir, _ := os.MkdirTemp("", "veriflivepanic")
		defer os.RemoveAll(dir)
		s, err := ebsql.New(filepath.Join(dir, "db.sqlite"))
		if err != nil {
			return "!livepanic store " + err.Error()
		}
		defer s.Close()
		st = s
	} else {
		st = eb.NewMemoryStore()
	}
	var mu sync.Mutex
	var got, other, panics []int
	bus := eb.New(eb.WithStore(st), eb.WithPanicHandler(func(ev any, _ reflect.Type, _ any) {
		mu.Lock()
		defer mu.Unlock()
		if e, ok := ev.(RT1); ok {
			panics = append(panics, e.R)
		} else {
			panics = append(panics, -1)
		}
	}))
	var opts []eb.SubscribeOption
	if async {
		opts = append(opts, eb.Async(), eb.Sequential())
	}
	if err := eb.SubscribeWithReplay(context.Background(), bus, "lp", func(e RT1) {
		mu.Lock()
		got = append(got, e.R)
		mu.Unlock()
		if e.R == k {
			panic("the handler of a resumable subscription panics on a live event")
		}
	}, opts...); err != nil {
		return "!livepanic subscribe: " + err.Error()
	}
	if err := eb.Subscribe(bus, func(e RT1) { mu.Lock(); other = append(other, e.R); mu.Unlock() }); err != nil {
		return "!livepanic subscribe: " + err.Error()
	}
	done := make(chan string, 1)
	go func() {
		defer func() {
			if r := recover(); r != nil {
				done <- fmt.Sprintf("!livepanic the panic reached the publisher: %v", r)
			}
		}()
		for i := 1; i <= n; i++ {
			eb.Publish(bus, mkRT1(i))
		}
		bus.Wait()
		done <- ""
	}()
	select {
	case v := <-done:
		if v != "" {
			return v
		}
	case <-time.After(12 * time.Second):
		mu.Lock()
		defer mu.Unlock()
		return fmt.Sprintf("!livepanic after the handler of a resumable subscription panicked on event %d the bus is stuck: subscription saw %s, the other handler %s", k, showNatList(got), showNatList(other))
	}
	mu.Lock()
	defer mu.Unlock()
	var want []int
	for i := 1; i <= n; i++ {
		want = append(want, i)
	}
	if !reflect.DeepEqual(got, want) || !reflect.DeepEqual(other, want) {
		return fmt.Sprintf("!livepanic events 1..%d (panic on %d): subscription saw %s, the other handler %s", n, k, showNatList(got), showNatList(other))
	}
	if !reflect.DeepEqual(panics, []int{k}) {
		return fmt.Sprintf("!livepanic the panic handler was told of %s, the handler panicked on event %d", showNatList(panics), k)
	}
	if k < n {
		evs, _, _ := st.Read(context.Background(), eb.OffsetOldest, 0)
		off, _ := st.LoadOffset(context.Background(), "lp")
		if len(evs) != n || off != evs[n-1].Offset {
			return fmt.Sprintf("!livepanic saved offset is %q after %d events (%d records)", off, n, len(evs))
		}
	}
	return "livepanic ok"
}

func panicResume(kind string, n, k int) string {
	var st fullStore
	if kind == "sqlite" {
		dir, _ := os.MkdirTemp("", "verifpanicresume")
		defer os.RemoveAll(dir)
		s, err := ebsql.New(filepath.Join(dir, "db.sqlite"))
		if err != nil {
			return "!panicresume store " + err.Error()
		}
		defer s.Close()
		st = s
	} else {
		st = eb.NewMemoryStore()
	}
	b1 := eb.New(eb.WithStore(st))
	for i := 1; i <= n; i++ {
		eb.Publish(b1, mkRT1(i))
	}
	var got []int
	armed := true
	h := func(e RT1) {
		got = append(got, e.R)
		if armed && e.R == k {
			armed = false
			panic("the process dies inside the handler")
		}
	}
	died := false
	func() {
		defer func() {
			if recover() != nil {
				died = true
			}
		}()
		_ = eb.SubscribeWithReplay(context.Background(), eb.New(eb.WithStore(st)), "pr", h)
	}()
	if !died {
		return "!panicresume the panic of the handler did not reach the caller of SubscribeWithReplay"
	}
	if err := eb.SubscribeWithReplay(context.Background(), eb.New(eb.WithStore(st)), "pr", h); err != nil {
		return "!panicresume after restart: " + err.Error()
	}
	var want []int
	for i := 1; i <= k; i++ {
		want = append(want, i)
	}
	for i := k; i <= n; i++ {
		want = append(want, i)
	}
	if !reflect.DeepEqual(got, want) {
		return fmt.Sprintf("!panicresume handler died at event %d of %d: over the restart the subscription was handed %s", k, n, showNatList(got))
	}
	return "panicresume ok"
}

func cancelResume(batch, n, k int) string {
	dir, _ := os.MkdirTemp("", "verifcancelresume")
	defer os.RemoveAll(dir)
	var opts []ebsql.Option
	if batch > 0 {
		opts = append(opts, ebsql.WithStreamBatchSize(batch))
	}
	st, err := ebsql.New(filepath.Join(dir, "db.sqlite"), opts...)
	if err != nil {
		return "!cancelresume store " + err.Error()
	}
	defer st.Close()
	positions := eb.NewMemoryStore()
	b1 := eb.New(eb.WithStore(st), eb.WithSubscriptionStore(positions))
	for i := 1; i <= n; i++ {
		eb.Publish(b1, mkRT1(i))
		if i%3 == 0 {
			eb.Publish(b1, mkRT2(1000+i))
		}
	}
	var got []int
	b2 := eb.New(eb.WithStore(st), eb.WithSubscriptionStore(positions))
	ctx, cancel := context.WithCancel(context.Background())
	defer cancel()
	armed := true
	h := func(e RT1) {
		got = append(got, faithful(e.R, e.Opt, e.M))
		if armed && e.R == k {
			armed = false
			cancel()
			time.Sleep(40 * time.Millisecond) // database/sql notices a cancellation asynchronously
		}
	}
	err = eb.SubscribeWithReplay(ctx, b2, "cr", h)
	if err == nil && len(got) != n {
		return fmt.Sprintf("!cancelresume catch-up cancelled at event %d of %d returned nil after delivering %s", k, n, showNatList(got))
	}
	for tries := 0; err != nil && tries < 3; tries++ {
		err = eb.SubscribeWithReplay(context.Background(), b2, "cr", h)
	}
	if err != nil {
		return "!cancelresume retry keeps failing: " + err.Error()
	}
	eb.Publish(b2, mkRT1(n+1))
	b3 := eb.New(eb.WithStore(st), eb.WithSubscriptionStore(positions))
	if err := eb.SubscribeWithReplay(context.Background(), b3, "cr", h); err != nil {
		return "!cancelresume after restart: " + err.Error()
	}
	want := make([]int, n+1)
	for i := range want {
		want[i] = i + 1
	}
	if !reflect.DeepEqual(got, want) {
		return fmt.Sprintf("!cancelresume batch=%d: events 1..%d were handed to the subscription as %s", batch, n+1, showNatList(got))
	}
	return "cancelresume ok"
}

func init() { domains["resume"] = resumeDomain }

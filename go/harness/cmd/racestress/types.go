package main

import "reflect"

type reflectType = reflect.Type
type any2 = reflect.Type

// Command racestress is the witness hunter of C03: a concurrent mix of every public API call
// (setters excluded), with re-entrant calls from handlers, filters and hooks, meant to be built
// with -race. It prints "STRESS ok …" or lets the race detector / the watchdog report.
package main

import (
	"context"
	"encoding/json"
	"flag"
	"fmt"
	"math/rand"
	"os"
	"runtime"
	"sync"
	"sync/atomic"
	"time"

	eb "github.com/jilio/ebu"
	"github.com/jilio/ebu/state"
)

type A struct{ V int }
type B struct{ V int }
type Ent struct {
	ID int `json:"id"`
}

func main() {
	dur := flag.Duration("d", 3*time.Second, "duration")
	seed := flag.Int64("seed", 1, "seed")
	flag.Parse()
	var progress atomic.Int64
	deadline := time.Now().Add(*dur)
	stop := func() bool { return time.Now().After(deadline) }

	mem := eb.NewMemoryStore()
	bus := eb.New(eb.WithStore(mem), eb.WithPanicHandler(func(any, any2, any) {}),
		eb.WithBeforePublishContext(func(ctx context.Context, t reflectType, e any) { progress.Add(1) }),
		eb.WithAfterPublish(func(t reflectType, e any) {}))
	ctx := context.Background()

	// upcasters and replay readers
	eb.RegisterUpcastFunc(bus, "main.A", "A2", func(d json.RawMessage) (json.RawMessage, string, error) { return d, "A2", nil })

	var wg sync.WaitGroup
	worker := func(id int, f func(r *rand.Rand)) {
		wg.Add(1)
		go func() {
			defer wg.Done()
			r := rand.New(rand.NewSource(*seed*1000 + int64(id)))
			for !stop() {
				f(r)
				progress.Add(1)
			}
		}()
	}
	h1 := func(e A) {}
	h2 := func(e A) { eb.Publish(bus, B{e.V}) } // re-entrant publish
	h3 := func(e B) {
		eb.HasHandlers[A](bus)
		eb.Subscribe(bus, func(B) {}, eb.Once())
	}
	var h4 func(e A)
	h4 = func(e A) { eb.Unsubscribe[A](bus, h1) }
	for i := 0; i < 3; i++ {
		worker(i, func(r *rand.Rand) {
			switch r.Intn(10) {
			case 0:
				eb.Subscribe(bus, h1)
			case 1:
				eb.Subscribe(bus, h2, eb.Async())
			case 2:
				eb.Subscribe(bus, h3, eb.Once(), eb.WithFilter(func(e B) bool { eb.HandlerCount[B](bus); return e.V%2 == 0 }))
			case 3:
				eb.Subscribe(bus, h4, eb.Async(), eb.Sequential())
			case 4:
				eb.Unsubscribe[A](bus, h1)
			case 5:
				eb.Clear[B](bus)
			case 6:
				eb.HandlerCount[A](bus)
			case 7:
				if r.Intn(20) == 0 {
					eb.ClearAll(bus)
				}
			default:
				eb.Subscribe(bus, func(e A) {}, eb.Sequential())
			}
		})
	}
	for i := 3; i < 6; i++ {
		worker(i, func(r *rand.Rand) {
			c, cancel := context.WithCancel(ctx)
			if r.Intn(4) == 0 {
				cancel()
			}
			eb.PublishContext(bus, c, A{r.Intn(100)})
			eb.Publish(bus, B{r.Intn(100)})
			cancel()
		})
	}
	worker(6, func(r *rand.Rand) { bus.Wait() })
	worker(15, func(r *rand.Rand) { bus.Wait() }) // several goroutines in Wait at once
	worker(16, func(r *rand.Rand) { bus.Wait() })
	worker(7, func(r *rand.Rand) {
		n := 0
		bus.ReplayWithUpcast(ctx, eb.OffsetOldest, func(e *eb.StoredEvent) error {
			n++
			if n > 50 {
				return fmt.Errorf("enough")
			}
			return nil
		})
	})
	worker(8, func(r *rand.Rand) {
		switch r.Intn(3) {
		case 0:
			eb.RegisterUpcastFunc(bus, fmt.Sprintf("T%d", r.Intn(5)), fmt.Sprintf("T%d", 5+r.Intn(5)), func(d json.RawMessage) (json.RawMessage, string, error) { return d, "x", nil })
		case 1:
			bus.ClearUpcastsForType(fmt.Sprintf("T%d", r.Intn(5)))
		default:
			eb.RegisterUpcast(bus, func(a A) B { return B{a.V} })
			bus.ClearUpcastsForType("main.A")
		}
	})
	// the memory store used directly
	direct := eb.NewMemoryStore()
	for i := 9; i < 12; i++ {
		worker(i, func(r *rand.Rand) {
			switch r.Intn(5) {
			case 0, 1:
				direct.Append(ctx, &eb.Event{Type: "t", Data: json.RawMessage(`1`), Timestamp: time.Now()})
			case 2:
				direct.Read(ctx, eb.OffsetOldest, 5)
			case 3:
				for range direct.ReadStream(ctx, eb.OffsetOldest) {
					break
				}
			default:
				direct.SaveOffset(ctx, "s", "00000000000000000001")
				direct.LoadOffset(ctx, "s")
			}
		})
	}
	// a resumable subscription on its own persistent bus
	worker(12, func(r *rand.Rand) {
		st := eb.NewMemoryStore()
		b := eb.New(eb.WithStore(st))
		eb.Publish(b, A{1})
		eb.SubscribeWithReplay(ctx, b, "id", func(e A) {})
		var w sync.WaitGroup
		for k := 0; k < 2; k++ {
			w.Add(1)
			go func() { defer w.Done(); eb.Publish(b, A{2}) }()
		}
		w.Wait()
	})
	// the materializer
	mat := state.NewMaterializer()
	coll := state.NewTypedCollection[Ent](state.NewMemoryStore[Ent]())
	state.RegisterCollection(mat, coll)
	for i := 13; i < 15; i++ {
		worker(i, func(r *rand.Rand) {
			m, _ := state.Insert(fmt.Sprint(r.Intn(5)), Ent{r.Intn(9)})
			b, _ := json.Marshal(m)
			mat.Apply(&eb.StoredEvent{Offset: "1", Data: b})
			mat.LastOffset()
			coll.Get("1")
			coll.All()
			if r.Intn(10) == 0 {
				rb, _ := json.Marshal(state.Reset(""))
				mat.Apply(&eb.StoredEvent{Offset: "2", Data: rb})
			}
		})
	}
	// watchdog: global progress must not stall
	done := make(chan struct{})
	go func() { wg.Wait(); close(done) }()
	last := progress.Load()
	stall := 0
	for {
		select {
		case <-done:
			fmt.Printf("STRESS ok operations=%d goroutines=%d\n", progress.Load(), runtime.NumGoroutine())
			return
		case <-time.After(500 * time.Millisecond):
			cur := progress.Load()
			if cur == last && !stop() {
				stall++
			} else {
				stall = 0
			}
			last = cur
			if stall >= 10 || time.Now().After(deadline.Add(10*time.Second)) {
				buf := make([]byte, 1<<20)
				n := runtime.Stack(buf, true)
				fmt.Printf("STRESS DEADLOCK no progress for 5s\n%s\n", buf[:n])
				os.Exit(3)
			}
		}
	}
}

// Command harness executes line-protocol cases against the real jilio/ebu code
// (built from /repo's working tree with -tags verif) and prints one canonical
// output line per operation, in the same format as the Lean model driver.
package main

import (
	"bufio"
	"encoding/json"
	"fmt"
	"os"
	"strings"
	"time"
)

// A domain runs one case (its lines) and returns the output lines.
type domain func(lines []string) []string

var domains = map[string]domain{}

func splitCases(sc *bufio.Scanner) (hdrs []string, bodies [][]string) {
	cur := -1
	for sc.Scan() {
		t := strings.TrimSpace(sc.Text())
		if t == "" {
			continue
		}
		if strings.HasPrefix(t, "#case") {
			hdrs = append(hdrs, t)
			bodies = append(bodies, nil)
			cur = len(hdrs) - 1
			continue
		}
		if cur < 0 {
			hdrs = append(hdrs, "#case -")
			bodies = append(bodies, nil)
			cur = 0
		}
		bodies[cur] = append(bodies[cur], t)
	}
	return
}

func runCaseSafe(d domain, lines []string) (out []string) {
	defer func() {
		if r := recover(); r != nil {
			out = append(out, fmt.Sprintf("!escaped-panic %v", r))
		}
	}()
	return d(lines)
}

// caseTimeout bounds one case: a deadlocked implementation call cannot be interrupted, so the
// process reports the hang and exits; the check re-runs the remaining cases in a new process.
var caseTimeout = 5 * time.Second

func runCaseWatched(d domain, lines []string) (out []string, hung bool) {
	done := make(chan []string, 1)
	go func() { done <- runCaseSafe(d, lines) }()
	select {
	case out = <-done:
		return out, false
	case <-time.After(caseTimeout):
		return []string{"!HANG the case did not finish within " + caseTimeout.String() + " (deadlock or livelock in the implementation)"}, true
	}
}

func main() {
	if len(os.Args) < 2 {
		fmt.Fprintln(os.Stderr, "usage: harness <domain> < cases")
		os.Exit(2)
	}
	if os.Args[1] == "killchild" {
		killChildMain(os.Args[2:])
		return
	}
	d, ok := domains[os.Args[1]]
	if !ok {
		fmt.Fprintln(os.Stderr, "unknown domain", os.Args[1])
		os.Exit(2)
	}
	if v := os.Getenv("VERIF_CASE_TIMEOUT"); v != "" && atoi(v) > 0 {
		caseTimeout = time.Duration(atoi(v)) * time.Second // confirmation run of a case that tripped the watchdog in its batch
	} else if os.Args[1] == "stress" {
		// a stress case is many rounds with their own 2-3 s liveness timeouts; on a loaded machine the rounds take longer
		caseTimeout = 30 * time.Second
	}
	sc := bufio.NewScanner(os.Stdin)
	sc.Buffer(make([]byte, 1<<20), 1<<26)
	hdrs, bodies := splitCases(sc)
	w := bufio.NewWriter(os.Stdout)
	defer w.Flush()
	for i, h := range hdrs {
		fmt.Fprintln(w, h)
		out, hung := runCaseWatched(d, bodies[i])
		for _, o := range out {
			fmt.Fprintln(w, o)
		}
		w.Flush()
		if hung {
			os.Exit(3)
		}
	}
}

// ---- small helpers shared by the domains ----

func atoi(s string) int {
	n := 0
	for _, c := range s {
		if c < '0' || c > '9' {
			return 0
		}
		n = n*10 + int(c-'0')
	}
	return n
}

func natList(s string) []int {
	if s == "-" || s == "" {
		return nil
	}
	var out []int
	for _, p := range strings.Split(s, ",") {
		out = append(out, atoi(p))
	}
	return out
}

func showNatList(l []int) string {
	if len(l) == 0 {
		return "-"
	}
	ss := make([]string, len(l))
	for i, v := range l {
		ss[i] = fmt.Sprint(v)
	}
	return strings.Join(ss, ",")
}

func b01(b bool) string {
	if b {
		return "1"
	}
	return "0"
}

func jsonUnmarshal(b []byte, v any) error { return json.Unmarshal(b, v) }

package main

import (
	"context"
	"encoding/json"
	"errors"
	"fmt"
	"strings"
	"sync"
	"time"

	eb "github.com/jilio/ebu"
)

// Domain "upcast": RegisterUpcastFunc / RegisterUpcast / ClearUpcasts /
// ClearUpcastsForType / apply (observed through ReplayWithUpcast over a
// one-event store).
//
// Type-name codes: 0 = "", 1..99 = "T<k>", 100+i = reflect name of V<i>.

type payload struct {
	Tags []int `json:"tags"`
	Opt  int   `json:"opt,omitempty"`
}

type V1 payload
type V2 payload
type V3 payload
type V4 payload

// type names that contain the arrow some code might use as a separator when it builds keys from two names
var arrowNames = map[int]string{90: "a", 91: "a->b", 92: "b->c", 93: "c", 94: "b"}

func tyName(k int) string {
	if n, ok := arrowNames[k]; ok {
		return n
	}
	switch {
	case k == 0:
		return ""
	case k >= 100:
		return fmt.Sprintf("main.V%d", k-100)
	default:
		return fmt.Sprintf("T%d", k)
	}
}

func tyCode(s string) int {
	for k, n := range arrowNames {
		if n == s {
			return k
		}
	}
	switch {
	case s == "":
		return 0
	case strings.HasPrefix(s, "main.V"):
		return 100 + atoi(s[len("main.V"):])
	case strings.HasPrefix(s, "T"):
		return atoi(s[1:])
	}
	return 9999
}

// oneEventStore is a user-supplied EventStore holding the single event to replay.
type oneEventStore struct{ ev *eb.StoredEvent }

func (s *oneEventStore) Append(ctx context.Context, e *eb.Event) (eb.Offset, error) {
	return "", errors.New("read-only")
}
func (s *oneEventStore) Read(ctx context.Context, from eb.Offset, limit int) ([]*eb.StoredEvent, eb.Offset, error) {
	if from == eb.OffsetOldest {
		return []*eb.StoredEvent{s.ev}, s.ev.Offset, nil
	}
	return nil, from, nil
}

func showCalls(l [][2]string) string {
	if len(l) == 0 {
		return "-"
	}
	ss := make([]string, len(l))
	for i, c := range l {
		ss[i] = c[0] + ":" + c[1]
	}
	return strings.Join(ss, ";")
}

func dataToList(d json.RawMessage) string {
	var p payload
	if err := json.Unmarshal(d, &p); err != nil {
		if strings.HasSuffix(string(d), " ]") { // the malformed payload of a `replay … <data>! …` line, handed on untouched
			if json.Unmarshal(d[:len(d)-2], &p) == nil {
				return showNatList(p.Tags) + "!"
			}
		}
		return "!" + string(d)
	}
	return showNatList(p.Tags)
}

func dataOpt(d json.RawMessage) int {
	var p payload
	if json.Unmarshal(d, &p) != nil && strings.HasSuffix(string(d), " ]") {
		_ = json.Unmarshal(d[:len(d)-2], &p)
	}
	return p.Opt
}

func listToData(l []int, opt int) json.RawMessage {
	if l == nil {
		l = []int{}
	}
	b, _ := json.Marshal(payload{Tags: l, Opt: opt})
	return b
}

func typedRegister(bus *eb.EventBus, i, j, tag int, calls *[][2]string) (error, bool) {
	rec := func(in []int) { *calls = append(*calls, [2]string{fmt.Sprint(tag), showNatList(in)}) }
	switch [2]int{i, j} {
	case [2]int{1, 2}:
		return eb.RegisterUpcast(bus, func(v V1) V2 { rec(v.Tags); return V2{Tags: append(append([]int{}, v.Tags...), tag), Opt: v.Opt} }), true
	case [2]int{1, 3}:
		return eb.RegisterUpcast(bus, func(v V1) V3 { rec(v.Tags); return V3{Tags: append(append([]int{}, v.Tags...), tag), Opt: v.Opt} }), true
	case [2]int{1, 4}:
		return eb.RegisterUpcast(bus, func(v V1) V4 { rec(v.Tags); return V4{Tags: append(append([]int{}, v.Tags...), tag), Opt: v.Opt} }), true
	case [2]int{2, 1}:
		return eb.RegisterUpcast(bus, func(v V2) V1 { rec(v.Tags); return V1{Tags: append(append([]int{}, v.Tags...), tag), Opt: v.Opt} }), true
	case [2]int{2, 3}:
		return eb.RegisterUpcast(bus, func(v V2) V3 { rec(v.Tags); return V3{Tags: append(append([]int{}, v.Tags...), tag), Opt: v.Opt} }), true
	case [2]int{2, 4}:
		return eb.RegisterUpcast(bus, func(v V2) V4 { rec(v.Tags); return V4{Tags: append(append([]int{}, v.Tags...), tag), Opt: v.Opt} }), true
	case [2]int{3, 1}:
		return eb.RegisterUpcast(bus, func(v V3) V1 { rec(v.Tags); return V1{Tags: append(append([]int{}, v.Tags...), tag), Opt: v.Opt} }), true
	case [2]int{3, 2}:
		return eb.RegisterUpcast(bus, func(v V3) V2 { rec(v.Tags); return V2{Tags: append(append([]int{}, v.Tags...), tag), Opt: v.Opt} }), true
	case [2]int{3, 4}:
		return eb.RegisterUpcast(bus, func(v V3) V4 { rec(v.Tags); return V4{Tags: append(append([]int{}, v.Tags...), tag), Opt: v.Opt} }), true
	case [2]int{4, 1}:
		return eb.RegisterUpcast(bus, func(v V4) V1 { rec(v.Tags); return V1{Tags: append(append([]int{}, v.Tags...), tag), Opt: v.Opt} }), true
	case [2]int{4, 2}:
		return eb.RegisterUpcast(bus, func(v V4) V2 { rec(v.Tags); return V2{Tags: append(append([]int{}, v.Tags...), tag), Opt: v.Opt} }), true
	case [2]int{4, 3}:
		return eb.RegisterUpcast(bus, func(v V4) V3 { rec(v.Tags); return V3{Tags: append(append([]int{}, v.Tags...), tag), Opt: v.Opt} }), true
	case [2]int{1, 1}:
		return eb.RegisterUpcast(bus, func(v V1) V1 { rec(v.Tags); return V1{Tags: append(append([]int{}, v.Tags...), tag), Opt: v.Opt} }), true
	case [2]int{2, 2}:
		return eb.RegisterUpcast(bus, func(v V2) V2 { rec(v.Tags); return V2{Tags: append(append([]int{}, v.Tags...), tag), Opt: v.Opt} }), true
	}
	return nil, false
}

func regErrKind(err error) string {
	if err == nil {
		return "reg ok"
	}
	m := err.Error()
	switch {
	case strings.Contains(m, "cannot be empty"):
		return "reg err empty"
	case strings.Contains(m, "to itself"):
		return "reg err self"
	case strings.Contains(m, "cannot be nil"):
		return "reg err nil"
	case strings.Contains(m, "circular"):
		return "reg err cycle"
	}
	return "reg err ?" + m
}

func upcastDomain(lines []string) []string {
	store := &oneEventStore{}
	var out []string
	var calls, errCalls [][2]string
	var pendingClears []chan struct{}
	// leading "optreg src dst ret fails tag" lines: upcasters given to New as WithUpcast options, in order
	opts := []eb.Option{eb.WithStore(store)}
	nopt := 0
	for _, line := range lines {
		f := strings.Fields(line)
		if f[0] == "opterrh" {
			// the error handler handed to New as an option (before or between the upcaster options)
			nopt++
			opts = append(opts, eb.WithUpcastErrorHandler(func(eventType string, data json.RawMessage, err error) {
				errCalls = append(errCalls, [2]string{fmt.Sprint(tyCode(eventType)), dataToList(data)})
			}))
			out = append(out, "opterrh")
			continue
		}
		if f[0] != "optreg" || len(f) != 6 {
			break
		}
		nopt++
		src, dst, ret, fails, tag := atoi(f[1]), atoi(f[2]), atoi(f[3]), f[4] == "1", atoi(f[5])
		opts = append(opts, eb.WithUpcast(tyName(src), tyName(dst), func(data json.RawMessage) (json.RawMessage, string, error) {
			var pl payload
			_ = json.Unmarshal(data, &pl)
			calls = append(calls, [2]string{fmt.Sprint(tag), showNatList(pl.Tags)})
			if fails {
				return nil, "", errors.New("boom")
			}
			return listToData(append(append([]int{}, pl.Tags...), tag), pl.Opt), tyName(ret), nil
		}))
		out = append(out, "optreg")
	}
	bus := eb.New(opts...)
	for _, line := range lines[nopt:] {
		f := strings.Fields(line)
		switch {
		case f[0] == "errh" && len(f) == 2:
			if f[1] == "1" {
				bus.SetUpcastErrorHandler(func(eventType string, data json.RawMessage, err error) {
					errCalls = append(errCalls, [2]string{fmt.Sprint(tyCode(eventType)), dataToList(data)})
				})
			} else {
				bus.SetUpcastErrorHandler(nil)
			}
			out = append(out, "errh")
		case f[0] == "reg" && len(f) == 7:
			src, dst, ret, fails, tag, isNil := atoi(f[1]), atoi(f[2]), atoi(f[3]), f[4] == "1", atoi(f[5]), f[6] == "1"
			var err error
			if isNil {
				err = eb.RegisterUpcastFunc(bus, tyName(src), tyName(dst), nil)
			} else if e, ok := func() (error, bool) {
				if src >= 100 && dst >= 100 && ret == dst && !fails && tag < 200 { // (tag >= 200: the raw upcaster that races a clear)
					return typedRegister(bus, src-100, dst-100, tag, &calls)
				}
				return nil, false
			}(); ok {
				err = e
			} else {
				fn := func(data json.RawMessage) (json.RawMessage, string, error) {
					var pl payload
					_ = json.Unmarshal(data, &pl)
					l := pl.Tags
					calls = append(calls, [2]string{fmt.Sprint(tag), showNatList(l)})
					if tag >= 200 {
						// a registry change racing with the chain this step belongs to: ClearUpcasts from another
						// goroutine, given 20 ms to get through before the step returns (it must not: the chain is
						// applied against one registry state; the clear takes effect once the event is done)
						cl := make(chan struct{})
						go func() { bus.ClearUpcasts(); close(cl) }()
						select {
						case <-cl:
						case <-time.After(20 * time.Millisecond):
						}
						pendingClears = append(pendingClears, cl)
					}
					if fails {
						return nil, "", errors.New("boom")
					}
					return listToData(append(append([]int{}, l...), tag), pl.Opt), tyName(ret), nil
				}
				err = eb.RegisterUpcastFunc(bus, tyName(src), tyName(dst), fn)
			}
			out = append(out, regErrKind(err))
		case f[0] == "clear":
			bus.ClearUpcasts()
			out = append(out, "clear")
		case f[0] == "cleartype" && len(f) == 2:
			bus.ClearUpcastsForType(tyName(atoi(f[1])))
			out = append(out, "cleartype")
		case (f[0] == "replay" && len(f) == 6) || (f[0] == "replayagain" && len(f) == 1):
			if f[0] == "replay" {
				off, ts, ty, d, opt := atoi(f[1]), atoi(f[2]), atoi(f[3]), natList(strings.TrimSuffix(f[4], "!")), atoi(f[5])
				data := listToData(d, opt)
				if strings.HasSuffix(f[4], "!") {
					data = append(append(json.RawMessage{}, data...), []byte(" ]")...) // a JSON value followed by garbage: not a JSON document
				}
				store.ev = &eb.StoredEvent{Offset: eb.Offset(fmt.Sprintf("o%d", off)), Type: tyName(ty), Data: data, Timestamp: time.Unix(0, int64(ts)).UTC()}
			} else if store.ev == nil {
				out = append(out, "replayagain skip")
				continue
			}
			// replayagain: the store hands out the very same *StoredEvent once more (as MemoryStore does): an
			// upcasting replay must not have written into it
			calls, errCalls = nil, nil
			var seen *eb.StoredEvent
			n := 0
			done := make(chan error, 1)
			go func() {
				done <- bus.ReplayWithUpcast(context.Background(), eb.OffsetOldest, func(e *eb.StoredEvent) error {
					seen = e
					n++
					return nil
				})
			}()
			select {
			case err := <-done:
				if err != nil || n != 1 {
					out = append(out, fmt.Sprintf("!replay err=%v n=%d", err, n))
					continue
				}
			case <-time.After(3 * time.Second):
				out = append(out, "!HANG apply does not terminate")
				return out
			}
			for _, cl := range pendingClears {
				select {
				case <-cl:
				case <-time.After(3 * time.Second):
					out = append(out, "!HANG ClearUpcasts does not return after the replay")
					return out
				}
			}
			pendingClears = nil
			out = append(out, fmt.Sprintf("seen off=%s ts=%d ty=%d data=%s opt=%d calls=%s errh=%s",
				strings.TrimPrefix(string(seen.Offset), "o"), seen.Timestamp.UnixNano(), tyCode(seen.Type), dataToList(seen.Data), dataOpt(seen.Data), showCalls(calls), showCalls(errCalls)))
		case f[0] == "racereg" && len(f) == 2:
			// racing registrations of opposite edges must never both be accepted (the graph stays acyclic)
			bad := -1
			for round := 0; round < atoi(f[1]) && bad < 0; round++ {
				b := eb.New()
				fn := func(d json.RawMessage) (json.RawMessage, string, error) { return d, "x", nil }
				var wg sync.WaitGroup
				var e1, e2 error
				start := make(chan struct{})
				wg.Add(2)
				go func() { defer wg.Done(); <-start; e1 = eb.RegisterUpcastFunc(b, "A", "B", fn) }()
				go func() { defer wg.Done(); <-start; e2 = eb.RegisterUpcastFunc(b, "B", "A", fn) }()
				close(start)
				wg.Wait()
				if e1 == nil && e2 == nil {
					bad = round
				}
			}
			if bad >= 0 {
				out = append(out, fmt.Sprintf("!racereg both A->B and B->A were accepted (round %d): the registry is cyclic", bad))
			} else {
				out = append(out, "racereg ok")
			}
		default:
			out = append(out, "bad-op "+line)
		}
	}
	return out
}

func init() { domains["upcast"] = upcastDomain }

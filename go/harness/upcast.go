package main

import (
	"context"
	"encoding/json"
	"errors"
	"fmt"
	"strings"
	"time"

	eb "github.com/jilio/ebu"
)

// Domain "upcast": RegisterUpcastFunc / RegisterUpcast / ClearUpcasts /
// ClearUpcastsForType / apply (observed through ReplayWithUpcast over a
// one-event store).
//
// Type-name codes: 0 = "", 1..99 = "T<k>", 100+i = reflect name of V<i>.

type V1 []int
type V2 []int
type V3 []int
type V4 []int

func tyName(k int) string {
	switch {
	case k == 0:
		return ""
	case k >= 100:
		return fmt.Sprintf("main.V%d", k-100)
	default:
		return fmt.Sprintf("T%d", k)
	}
}

func tyCode(s string) int {
	switch {
	case s == "":
		return 0
	case strings.HasPrefix(s, "main.V"):
		return 100 + atoi(s[len("main.V"):])
	case strings.HasPrefix(s, "T"):
		return atoi(s[1:])
	}
	return 9999
}

// oneEventStore is a user-supplied EventStore holding the single event to replay.
type oneEventStore struct{ ev *eb.StoredEvent }

func (s *oneEventStore) Append(ctx context.Context, e *eb.Event) (eb.Offset, error) {
	return "", errors.New("read-only")
}
func (s *oneEventStore) Read(ctx context.Context, from eb.Offset, limit int) ([]*eb.StoredEvent, eb.Offset, error) {
	if from == eb.OffsetOldest {
		return []*eb.StoredEvent{s.ev}, s.ev.Offset, nil
	}
	return nil, from, nil
}

func showCalls(l [][2]string) string {
	if len(l) == 0 {
		return "-"
	}
	ss := make([]string, len(l))
	for i, c := range l {
		ss[i] = c[0] + ":" + c[1]
	}
	return strings.Join(ss, ";")
}

func dataToList(d json.RawMessage) string {
	var l []int
	if err := json.Unmarshal(d, &l); err != nil {
		return "!" + string(d)
	}
	return showNatList(l)
}

func listToData(l []int) json.RawMessage {
	if l == nil {
		l = []int{}
	}
	b, _ := json.Marshal(l)
	return b
}

func typedRegister(bus *eb.EventBus, i, j, tag int, calls *[][2]string) (error, bool) {
	rec := func(in []int) { *calls = append(*calls, [2]string{fmt.Sprint(tag), showNatList(in)}) }
	switch [2]int{i, j} {
	case [2]int{1, 2}:
		return eb.RegisterUpcast(bus, func(v V1) V2 { rec(v); return append(V2(append([]int{}, v...)), tag) }), true
	case [2]int{1, 3}:
		return eb.RegisterUpcast(bus, func(v V1) V3 { rec(v); return append(V3(append([]int{}, v...)), tag) }), true
	case [2]int{1, 4}:
		return eb.RegisterUpcast(bus, func(v V1) V4 { rec(v); return append(V4(append([]int{}, v...)), tag) }), true
	case [2]int{2, 1}:
		return eb.RegisterUpcast(bus, func(v V2) V1 { rec(v); return append(V1(append([]int{}, v...)), tag) }), true
	case [2]int{2, 3}:
		return eb.RegisterUpcast(bus, func(v V2) V3 { rec(v); return append(V3(append([]int{}, v...)), tag) }), true
	case [2]int{2, 4}:
		return eb.RegisterUpcast(bus, func(v V2) V4 { rec(v); return append(V4(append([]int{}, v...)), tag) }), true
	case [2]int{3, 1}:
		return eb.RegisterUpcast(bus, func(v V3) V1 { rec(v); return append(V1(append([]int{}, v...)), tag) }), true
	case [2]int{3, 2}:
		return eb.RegisterUpcast(bus, func(v V3) V2 { rec(v); return append(V2(append([]int{}, v...)), tag) }), true
	case [2]int{3, 4}:
		return eb.RegisterUpcast(bus, func(v V3) V4 { rec(v); return append(V4(append([]int{}, v...)), tag) }), true
	case [2]int{4, 1}:
		return eb.RegisterUpcast(bus, func(v V4) V1 { rec(v); return append(V1(append([]int{}, v...)), tag) }), true
	case [2]int{4, 2}:
		return eb.RegisterUpcast(bus, func(v V4) V2 { rec(v); return append(V2(append([]int{}, v...)), tag) }), true
	case [2]int{4, 3}:
		return eb.RegisterUpcast(bus, func(v V4) V3 { rec(v); return append(V3(append([]int{}, v...)), tag) }), true
	case [2]int{1, 1}:
		return eb.RegisterUpcast(bus, func(v V1) V1 { rec(v); return append(V1(append([]int{}, v...)), tag) }), true
	case [2]int{2, 2}:
		return eb.RegisterUpcast(bus, func(v V2) V2 { rec(v); return append(V2(append([]int{}, v...)), tag) }), true
	}
	return nil, false
}

func regErrKind(err error) string {
	if err == nil {
		return "reg ok"
	}
	m := err.Error()
	switch {
	case strings.Contains(m, "cannot be empty"):
		return "reg err empty"
	case strings.Contains(m, "to itself"):
		return "reg err self"
	case strings.Contains(m, "cannot be nil"):
		return "reg err nil"
	case strings.Contains(m, "circular"):
		return "reg err cycle"
	}
	return "reg err ?" + m
}

func upcastDomain(lines []string) []string {
	store := &oneEventStore{}
	bus := eb.New(eb.WithStore(store))
	var out []string
	var calls, errCalls [][2]string
	for _, line := range lines {
		f := strings.Fields(line)
		switch {
		case f[0] == "errh" && len(f) == 2:
			if f[1] == "1" {
				bus.SetUpcastErrorHandler(func(eventType string, data json.RawMessage, err error) {
					errCalls = append(errCalls, [2]string{fmt.Sprint(tyCode(eventType)), dataToList(data)})
				})
			} else {
				bus.SetUpcastErrorHandler(nil)
			}
			out = append(out, "errh")
		case f[0] == "reg" && len(f) == 7:
			src, dst, ret, fails, tag, isNil := atoi(f[1]), atoi(f[2]), atoi(f[3]), f[4] == "1", atoi(f[5]), f[6] == "1"
			var err error
			if isNil {
				err = eb.RegisterUpcastFunc(bus, tyName(src), tyName(dst), nil)
			} else if e, ok := func() (error, bool) {
				if src >= 100 && dst >= 100 && ret == dst && !fails {
					return typedRegister(bus, src-100, dst-100, tag, &calls)
				}
				return nil, false
			}(); ok {
				err = e
			} else {
				fn := func(data json.RawMessage) (json.RawMessage, string, error) {
					var l []int
					_ = json.Unmarshal(data, &l)
					calls = append(calls, [2]string{fmt.Sprint(tag), showNatList(l)})
					if fails {
						return nil, "", errors.New("boom")
					}
					return listToData(append(append([]int{}, l...), tag)), tyName(ret), nil
				}
				err = eb.RegisterUpcastFunc(bus, tyName(src), tyName(dst), fn)
			}
			out = append(out, regErrKind(err))
		case f[0] == "clear":
			bus.ClearUpcasts()
			out = append(out, "clear")
		case f[0] == "cleartype" && len(f) == 2:
			bus.ClearUpcastsForType(tyName(atoi(f[1])))
			out = append(out, "cleartype")
		case (f[0] == "replay" && len(f) == 5) || (f[0] == "apply" && len(f) == 3):
			var off, ts, ty int
			var d []int
			if f[0] == "replay" {
				off, ts, ty, d = atoi(f[1]), atoi(f[2]), atoi(f[3]), natList(f[4])
			} else {
				off, ts, ty, d = 1, 1, atoi(f[1]), natList(f[2])
			}
			store.ev = &eb.StoredEvent{Offset: eb.Offset(fmt.Sprintf("o%d", off)), Type: tyName(ty), Data: listToData(d), Timestamp: time.Unix(0, int64(ts)).UTC()}
			calls, errCalls = nil, nil
			var seen *eb.StoredEvent
			n := 0
			done := make(chan error, 1)
			go func() {
				done <- bus.ReplayWithUpcast(context.Background(), eb.OffsetOldest, func(e *eb.StoredEvent) error {
					seen = e
					n++
					return nil
				})
			}()
			select {
			case err := <-done:
				if err != nil || n != 1 {
					out = append(out, fmt.Sprintf("!replay err=%v n=%d", err, n))
					continue
				}
			case <-time.After(3 * time.Second):
				out = append(out, "!HANG apply does not terminate")
				return out
			}
			if f[0] == "replay" {
				out = append(out, fmt.Sprintf("seen off=%s ts=%d ty=%d data=%s calls=%s errh=%s",
					strings.TrimPrefix(string(seen.Offset), "o"), seen.Timestamp.UnixNano(), tyCode(seen.Type), dataToList(seen.Data), showCalls(calls), showCalls(errCalls)))
			} else {
				// apply's error kind is not visible through ReplayWithUpcast; report what is:
				// ok iff the callback saw something other than the stored event or no upcaster ran
				out = append(out, fmt.Sprintf("apply ty=%d data=%s calls=%s errh=%s",
					tyCode(seen.Type), dataToList(seen.Data), showCalls(calls), showCalls(errCalls)))
			}
		default:
			out = append(out, "bad-op "+line)
		}
	}
	return out
}

func init() { domains["upcast"] = upcastDomain }

package main

import (
	"context"
	"fmt"
	"sort"
	"strings"

	ebotel "github.com/jilio/ebu/otel"
	"go.opentelemetry.io/otel/attribute"
	"go.opentelemetry.io/otel/codes"
	sdkmetric "go.opentelemetry.io/otel/sdk/metric"
	"go.opentelemetry.io/otel/sdk/metric/metricdata"
	sdktrace "go.opentelemetry.io/otel/sdk/trace"
	"go.opentelemetry.io/otel/sdk/trace/tracetest"
	"go.opentelemetry.io/otel/trace"
)

// otelProbe runs the real otel.Observability over the SDK's span recorder and a manual metric reader.
type otelProbe struct {
	obs    *ebotel.Observability
	rec    *tracetest.SpanRecorder
	reader *sdkmetric.ManualReader
	sampled bool
}

// SpanAttributes makes two harness event types SpanAttributers (events that enrich their publish span)
func (e U05) SpanAttributes() []attribute.KeyValue { return []attribute.KeyValue{attribute.Int("v", e.V)} }
func (e T00) SpanAttributes() []attribute.KeyValue { return []attribute.KeyValue{attribute.Int("v", e.V)} }

func newOtelProbe(sampled bool) (*otelProbe, error) {
	rec := tracetest.NewSpanRecorder()
	opts := []sdktrace.TracerProviderOption{sdktrace.WithSpanProcessor(rec)}
	if !sampled {
		opts = append(opts, sdktrace.WithSampler(sdktrace.NeverSample())) // spans are not recorded; the counters still count
	}
	tp := sdktrace.NewTracerProvider(opts...)
	reader := sdkmetric.NewManualReader()
	mp := sdkmetric.NewMeterProvider(sdkmetric.WithReader(reader))
	o, err := ebotel.New(ebotel.WithTracerProvider(tp), ebotel.WithMeterProvider(mp))
	if err != nil {
		return nil, err
	}
	return &otelProbe{o, rec, reader, sampled}, nil
}

func spanKind(name string) string {
	switch {
	case strings.HasPrefix(name, "eventbus.publish"):
		return "ps"
	case strings.HasPrefix(name, "eventbus.handler"):
		return "hs"
	case strings.HasPrefix(name, "eventbus.persist"):
		return "rs"
	}
	return "?"
}

func (p *otelProbe) summary() string {
	started, ended := p.rec.Started(), p.rec.Ended()
	kindOf := map[trace.SpanID]string{}
	for _, s := range started {
		kindOf[s.SpanContext().SpanID()] = spanKind(s.Name())
	}
	edges := map[string]int{}
	herrSpans := 0
	endCount := map[trace.SpanID]int{}
	for _, s := range ended {
		endCount[s.SpanContext().SpanID()]++
		if spanKind(s.Name()) == "hs" && s.Status().Code == codes.Error {
			herrSpans++
		}
	}
	twice := 0
	for _, n := range endCount {
		if n != 1 {
			twice++
		}
	}
	for _, s := range started {
		parent := "root"
		if s.Parent().IsValid() {
			if k, ok := kindOf[s.Parent().SpanID()]; ok {
				parent = k
			} else {
				parent = "foreign"
			}
		}
		edges[spanKind(s.Name())+"<-"+parent]++
	}
	var es []string
	for k, v := range edges {
		es = append(es, fmt.Sprintf("%s:%d", k, v))
	}
	sort.Strings(es)
	if len(es) == 0 {
		es = []string{"-"}
	}
	var rm metricdata.ResourceMetrics
	_ = p.reader.Collect(context.Background(), &rm)
	sum := map[string]int64{}
	for _, sm := range rm.ScopeMetrics {
		for _, m := range sm.Metrics {
			if d, ok := m.Data.(metricdata.Sum[int64]); ok {
				for _, dp := range d.DataPoints {
					sum[m.Name] += dp.Value
				}
			}
		}
	}
	if !p.sampled {
		return fmt.Sprintf("otelns publish=%d handler=%d herr=%d persist=%d perr=%d", sum["eventbus.publish.count"], sum["eventbus.handler.count"],
			sum["eventbus.handler.errors"], sum["eventbus.persist.count"], sum["eventbus.persist.errors"])
	}
	return fmt.Sprintf("otel started=%d ended=%d notonce=%d publish=%d handler=%d herr=%d herrspans=%d persist=%d perr=%d edges=%s",
		len(started), len(ended), twice, sum["eventbus.publish.count"], sum["eventbus.handler.count"], sum["eventbus.handler.errors"], herrSpans,
		sum["eventbus.persist.count"], sum["eventbus.persist.errors"], strings.Join(es, ","))
}

package main

import (
	"context"
	"fmt"
	"math/rand"
	"reflect"
	"runtime"
	"strings"
	"sync"
	"sync/atomic"
	"time"

	eb "github.com/jilio/ebu"
)

// Domain "stress": implementation-side judges under REAL concurrency (no controlled scheduler), one per
// concurrency property. They look for a concrete failing history in the places the controlled scheduler
// cannot split (inside one API call); what they must find is what the theorems of the interleaving model
// say about every schedule, checked at quiescence:
//
//	regs   (C02) overlapping Unsubscribes and publishes on one type: nobody else's registration is lost, removed
//	             handlers get nothing afterwards, kept handlers get every event exactly once
//	once   (C04) concurrent publishers racing for one Once handler (with every Async/Sequential/filter mix):
//	             exactly one invocation, not counted afterwards, Wait returns
//	waiters(C06) several goroutines in Wait at once: all return, and only when nothing is in flight
//	hooks  (C08) overlapping publishes, and a hook that publishes: every hook exactly once per publish
//	seq    (C07) Sequential handlers under concurrent publishers and Async dispatch: no overlap, exactly once each,
//	             publish order per publisher for Async+Sequential
//
// Line: "<scenario> <seed> <rounds>"; output "<scenario> ok" or "!<scenario> <what failed>".

type SEv struct {
	Pub, N int
}

const stressHandlers = 8

// eight handlers with distinct code pointers (Unsubscribe identifies a handler by its code pointer)
func stressLit(k int, hit func(k int, e SEv)) func(SEv) {
	switch k {
	case 0:
		return func(e SEv) { hit(0, e) }
	case 1:
		return func(e SEv) { hit(1, e) }
	case 2:
		return func(e SEv) { hit(2, e) }
	case 3:
		return func(e SEv) { hit(3, e) }
	case 4:
		return func(e SEv) { hit(4, e) }
	case 5:
		return func(e SEv) { hit(5, e) }
	case 6:
		return func(e SEv) { hit(6, e) }
	default:
		return func(e SEv) { hit(7, e) }
	}
}

func waitTimeout(f func(), d time.Duration) bool {
	done := make(chan struct{})
	go func() { f(); close(done) }()
	select {
	case <-done:
		return true
	case <-time.After(d):
		return false
	}
}

func stressRegs(r *rand.Rand) string {
	bus := eb.New()
	var counts [stressHandlers]atomic.Int64
	hit := func(k int, e SEv) { counts[k].Add(1) }
	hs := make([]func(SEv), stressHandlers)
	for k := range hs {
		hs[k] = stressLit(k, hit)
	}
	var wg sync.WaitGroup
	for k := range hs { // concurrent subscriptions
		wg.Add(1)
		go func(k int) { defer wg.Done(); eb.Subscribe(bus, hs[k]) }(k)
	}
	wg.Wait()
	if n := eb.HandlerCount[SEv](bus); n != stressHandlers {
		return fmt.Sprintf("%d concurrent Subscribe calls returned, HandlerCount = %d", stressHandlers, n)
	}
	removed := map[int]bool{}
	for len(removed) < 2+r.Intn(4) {
		removed[r.Intn(stressHandlers)] = true
	}
	const P = 20
	start := make(chan struct{})
	var unsubErr atomic.Int64
	for k := range removed { // overlapping removals ...
		wg.Add(1)
		go func(k int) {
			defer wg.Done()
			<-start
			if eb.Unsubscribe[SEv](bus, hs[k]) != nil {
				unsubErr.Add(1)
			}
		}(k)
	}
	for p := 0; p < 2; p++ { // ... while publishers publish
		wg.Add(1)
		go func(p int) {
			defer wg.Done()
			<-start
			for i := 0; i < P/2; i++ {
				eb.Publish(bus, SEv{p, i})
			}
		}(p)
	}
	close(start)
	wg.Wait()
	if unsubErr.Load() != 0 {
		return "Unsubscribe of a registered handler returned an error"
	}
	if n := eb.HandlerCount[SEv](bus); n != stressHandlers-len(removed) {
		return fmt.Sprintf("%d registered, %d unsubscribed, HandlerCount = %d", stressHandlers, len(removed), n)
	}
	var before [stressHandlers]int64
	for k := range before {
		before[k] = counts[k].Load()
		if !removed[k] && before[k] != P {
			return fmt.Sprintf("handler %d stayed subscribed throughout %d publishes but was invoked %d times", k, P, before[k])
		}
		if removed[k] && before[k] > P {
			return fmt.Sprintf("handler %d was invoked %d times for %d publishes", k, before[k], P)
		}
	}
	const Q = 3
	for i := 0; i < Q; i++ {
		eb.Publish(bus, SEv{9, i})
	}
	for k := range before {
		got := counts[k].Load() - before[k]
		if removed[k] && got != 0 {
			return fmt.Sprintf("handler %d was unsubscribed (call returned nil) and then received %d of %d later events", k, got, Q)
		}
		if !removed[k] && got != Q {
			return fmt.Sprintf("handler %d was never unsubscribed but received %d of %d later events (removed concurrently: %v)", k, got, Q, keysOf(removed))
		}
	}
	return ""
}

func keysOf(m map[int]bool) []int {
	var l []int
	for k := 0; k < stressHandlers; k++ {
		if m[k] {
			l = append(l, k)
		}
	}
	return l
}

// stressOnceTickets: the Once+Async+Sequential mix, where the once claim and the sequential ticket are taken by
// racing publishers: many short rounds with many publishers that each publish once
func stressOnceTickets(r *rand.Rand) string {
	for round := 0; round < 400; round++ {
		bus := eb.New()
		var calls atomic.Int64
		eb.Subscribe(bus, func(e SEv) { calls.Add(1) }, eb.Once(), eb.Async(), eb.Sequential())
		var wg sync.WaitGroup
		start := make(chan struct{})
		const G = 16
		for p := 0; p < G; p++ {
			wg.Add(1)
			go func(p int) { defer wg.Done(); <-start; eb.Publish(bus, SEv{p, 1}) }(p)
		}
		close(start)
		wg.Wait()
		if !waitTimeout(bus.Wait, 2*time.Second) {
			return fmt.Sprintf("Once+Async+Sequential handler, %d concurrent publishers: Wait does not return (invocations so far: %d, HandlerCount %d)", G, calls.Load(), eb.HandlerCount[SEv](bus))
		}
		if c := calls.Load(); c != 1 {
			return fmt.Sprintf("Once+Async+Sequential handler, %d concurrent publishers of eligible events: invoked %d times", G, c)
		}
	}
	return ""
}

func stressOnce(r *rand.Rand) string {
	if r.Intn(4) == 0 {
		return stressOnceTickets(r)
	}
	bus := eb.New()
	var calls atomic.Int64
	opts := []eb.SubscribeOption{eb.Once()}
	desc := "Once"
	if r.Intn(2) == 0 {
		opts = append(opts, eb.Async())
		desc += "+Async"
	}
	if r.Intn(2) == 0 {
		opts = append(opts, eb.Sequential())
		desc += "+Sequential"
	}
	filtered := r.Intn(3) == 0
	if filtered {
		opts = append(opts, eb.WithFilter(func(e SEv) bool { return e.N%2 == 1 }))
		desc += "+filter(odd)"
	}
	eb.Subscribe(bus, func(e SEv) { calls.Add(1) }, opts...)
	var wg sync.WaitGroup
	start := make(chan struct{})
	G := 2 + r.Intn(6)
	for p := 0; p < G; p++ {
		wg.Add(1)
		go func(p int) {
			defer wg.Done()
			<-start
			for i := 0; i < 3; i++ {
				eb.Publish(bus, SEv{p, i})
			}
		}(p)
	}
	close(start)
	wg.Wait()
	if !waitTimeout(bus.Wait, 2*time.Second) {
		return fmt.Sprintf("%s handler, %d concurrent publishers: Wait does not return (invocations so far: %d)", desc, G, calls.Load())
	}
	if c := calls.Load(); c != 1 {
		return fmt.Sprintf("%s handler, %d concurrent publishers of eligible events: invoked %d times", desc, G, c)
	}
	if n := eb.HandlerCount[SEv](bus); n != 0 {
		return fmt.Sprintf("%s handler fired but HandlerCount = %d", desc, n)
	}
	return ""
}

func stressWaiters(r *rand.Rand) string {
	bus := eb.New()
	var running, finished atomic.Int64
	release := make(chan struct{})
	eb.Subscribe(bus, func(e SEv) {
		running.Add(1)
		<-release
		if e.N == 0 && e.Pub < 2 {
			eb.Publish(bus, SEv{e.Pub + 10, 1}) // nested asynchronous work
		}
		finished.Add(1)
	}, eb.Async())
	K := 1 + r.Intn(3)
	for p := 0; p < K; p++ {
		eb.Publish(bus, SEv{p, 0})
	}
	W := 2 + r.Intn(4)
	var returned atomic.Int64
	var early atomic.Int64
	var wg sync.WaitGroup
	for w := 0; w < W; w++ {
		wg.Add(1)
		go func() {
			defer wg.Done()
			bus.Wait()
			if running.Load() != finished.Load() {
				early.Add(1)
			}
			returned.Add(1)
		}()
	}
	time.Sleep(time.Duration(r.Intn(300)) * time.Microsecond)
	if returned.Load() != 0 {
		return fmt.Sprintf("Wait returned while %d asynchronous handlers were still blocked", K)
	}
	close(release)
	if !waitTimeout(wg.Wait, 2*time.Second) {
		return fmt.Sprintf("%d goroutines called Wait; after all asynchronous work finished only %d returned", W, returned.Load())
	}
	if early.Load() != 0 {
		return "Wait returned while an asynchronous invocation (nested publish) had not finished"
	}
	return ""
}

func stressSeq(r *rand.Rand) string {
	bus := eb.New()
	async := r.Intn(2) == 0
	opts := []eb.SubscribeOption{eb.Sequential()}
	if async {
		opts = append(opts, eb.Async())
	}
	var inside atomic.Int64
	var overlap atomic.Int64
	var mu sync.Mutex
	seen := map[int][]int{}
	var extra sync.WaitGroup
	body := func(ctx context.Context, e SEv) {
		if inside.Add(1) != 1 {
			overlap.Add(1)
		}
		if e.N%3 == 0 {
			runtime.Gosched()
		}
		if ctx != nil && e.N == 2 && e.Pub < 100 {
			// the handler hands its context to another goroutine, which publishes the same event type with it while this
			// invocation is still running: that delivery, too, waits until this one is over
			extra.Add(1)
			go func() {
				defer extra.Done()
				eb.PublishContext(bus, ctx, SEv{100 + e.Pub, 0})
			}()
			time.Sleep(200 * time.Microsecond)
		}
		mu.Lock()
		seen[e.Pub] = append(seen[e.Pub], e.N)
		mu.Unlock()
		inside.Add(-1)
		if e.N == 1 && e.Pub == 0 {
			panic("a Sequential handler that panics must give its turn back")
		}
	}
	viaCtx := r.Intn(2) == 0 // the same guarantees hold for handlers registered with SubscribeContext
	if viaCtx {
		eb.SubscribeContext(bus, func(ctx context.Context, e SEv) { body(ctx, e) }, opts...)
	} else {
		eb.Subscribe(bus, func(e SEv) { body(nil, e) }, opts...)
	}
	G, N := 2+r.Intn(3), 6
	var wg sync.WaitGroup
	for p := 0; p < G; p++ {
		wg.Add(1)
		go func(p int) {
			defer wg.Done()
			for i := 0; i < N; i++ {
				if (p+i)%2 == 0 {
					var ev any = SEv{p, i} // through an interface variable: the dispatcher's reflection path
					eb.Publish(bus, ev)
				} else {
					eb.Publish(bus, SEv{p, i})
				}
			}
		}(p)
	}
	if !waitTimeout(wg.Wait, 2*time.Second) {
		return fmt.Sprintf("Sequential(async=%v) handler: publishers do not return", async)
	}
	if !waitTimeout(bus.Wait, 2*time.Second) {
		return fmt.Sprintf("Sequential(async=%v) handler: Wait does not return", async)
	}
	if !waitTimeout(extra.Wait, 2*time.Second) {
		return fmt.Sprintf("Sequential(async=%v) handler: a publish made with the handler's context from another goroutine does not return", async)
	}
	if !waitTimeout(bus.Wait, 2*time.Second) {
		return fmt.Sprintf("Sequential(async=%v) handler: Wait does not return", async)
	}
	if viaCtx {
		for p := 0; p < G; p++ {
			if len(seen[100+p]) != 1 {
				return fmt.Sprintf("Sequential(async=%v) handler: the event published with the handler's context from another goroutine was delivered %d times", async, len(seen[100+p]))
			}
		}
	}
	if overlap.Load() != 0 {
		return fmt.Sprintf("Sequential(async=%v) handler: %d overlapping invocations", async, overlap.Load())
	}
	for p := 0; p < G; p++ {
		if len(seen[p]) != N {
			return fmt.Sprintf("Sequential(async=%v) handler: publisher %d published %d events, %d delivered", async, p, N, len(seen[p]))
		}
		for i, n := range seen[p] {
			if n != i {
				return fmt.Sprintf("Sequential(async=%v, SubscribeContext=%v) handler: events of publisher %d processed in order %v", async, viaCtx, p, seen[p])
			}
		}
	}
	return ""
}

// stressHooks (C08): every publish runs each before hook once before its handlers and each after hook once after
// them – also when publishes overlap in time, and when a hook itself publishes (hooks may call back into the bus)
type SHook struct{ Pub, N int }

func stressHooks(r *rand.Rand) string {
	var before, beforeCtx, after, afterCtx, handled atomic.Int64
	var bus *eb.EventBus
	nested := r.Intn(2) == 0
	slow := func() {
		if r.Intn(2) == 0 {
			runtime.Gosched()
		} else {
			time.Sleep(time.Duration(20+r.Intn(80)) * time.Microsecond)
		}
	}
	var rmu sync.Mutex // r is shared by the hooks
	bus = eb.New(
		eb.WithBeforePublish(func(t reflect.Type, e any) {
			before.Add(1)
			rmu.Lock()
			slow()
			rmu.Unlock()
			if ev, ok := e.(SHook); ok && nested && ev.N == 0 {
				eb.Publish(bus, SHook{ev.Pub, 100}) // a hook that publishes: that publish has hooks and handlers too
			}
		}),
		eb.WithBeforePublishContext(func(ctx context.Context, t reflect.Type, e any) { beforeCtx.Add(1) }),
		eb.WithAfterPublish(func(t reflect.Type, e any) { after.Add(1) }),
		eb.WithAfterPublishContext(func(ctx context.Context, t reflect.Type, e any) { afterCtx.Add(1) }),
	)
	eb.Subscribe(bus, func(e SHook) { handled.Add(1) })
	G, N := 2+r.Intn(4), 4
	var wg sync.WaitGroup
	for p := 0; p < G; p++ {
		wg.Add(1)
		go func(p int) {
			defer wg.Done()
			for i := 0; i < N; i++ {
				eb.Publish(bus, SHook{p, i})
			}
		}(p)
	}
	if !waitTimeout(wg.Wait, 3*time.Second) {
		return "publishers with hooks do not return"
	}
	want := int64(G * N)
	if nested {
		want += int64(G) // one nested publish per publisher (from the before hook of its event 0)
	}
	for name, got := range map[string]int64{"before": before.Load(), "before(ctx)": beforeCtx.Load(), "after": after.Load(), "after(ctx)": afterCtx.Load(), "handler": handled.Load()} {
		if got != want {
			return fmt.Sprintf("%d publishes (%d publishers, hook publishing: %v): the %s hook ran %d times", want, G, nested, name, got)
		}
	}
	return ""
}

// stressTypes (C02): goroutines working on DIFFERENT event types at the same time (different registry shards): every
// subscription is found again by the publishes, counts and unsubscribes of its own type
type ST0 struct{ N int }
type ST1 struct{ N int }
type ST2 struct{ N int }
type ST3 struct{ N int }

func typeWorker[T any](bus *eb.EventBus, mk func(int) T, rounds int) string {
	for i := 0; i < rounds; i++ {
		var got atomic.Int64
		h := func(e T) { got.Add(1) }
		if err := eb.Subscribe(bus, h); err != nil {
			return "Subscribe failed: " + err.Error()
		}
		eb.Publish(bus, mk(i))
		if n := eb.HandlerCount[T](bus); n != 1 {
			return fmt.Sprintf("one handler subscribed for %T, HandlerCount = %d", mk(0), n)
		}
		if got.Load() != 1 {
			return fmt.Sprintf("the handler subscribed for %T received %d of 1 events", mk(0), got.Load())
		}
		if err := eb.Unsubscribe[T](bus, h); err != nil {
			return fmt.Sprintf("Unsubscribe of the handler subscribed for %T: %v", mk(0), err)
		}
	}
	return ""
}

func stressTypes(r *rand.Rand) string {
	bus := eb.New()
	res := make([]string, 4)
	var wg sync.WaitGroup
	wg.Add(4)
	go func() { defer wg.Done(); res[0] = typeWorker(bus, func(i int) ST0 { return ST0{i} }, 40) }()
	go func() { defer wg.Done(); res[1] = typeWorker(bus, func(i int) ST1 { return ST1{i} }, 40) }()
	go func() { defer wg.Done(); res[2] = typeWorker(bus, func(i int) ST2 { return ST2{i} }, 40) }()
	go func() { defer wg.Done(); res[3] = typeWorker(bus, func(i int) ST3 { return ST3{i} }, 40) }()
	wg.Wait()
	for _, m := range res {
		if m != "" {
			return "four goroutines, each on its own event type: " + m
		}
	}
	return ""
}

// stressObs (C20): callbacks stay paired when a publish is blocked on a Sequential handler's mutex and its context is
// cancelled meanwhile, and when handlers panic between ordinary runs
type pairObs struct {
	mu                       sync.Mutex
	hstart, hcomplete, herrs int
	bad                      string
	next                     int
}
type obsTok struct{ id int }

func (o *pairObs) OnPublishStart(ctx context.Context, t string, e any) context.Context { return ctx }
func (o *pairObs) OnPublishComplete(ctx context.Context, t string)                     {}
func (o *pairObs) OnHandlerStart(ctx context.Context, t string, async bool) context.Context {
	o.mu.Lock()
	defer o.mu.Unlock()
	o.hstart++
	o.next++
	return context.WithValue(ctx, obsTok{}, o.next)
}
func (o *pairObs) OnHandlerComplete(ctx context.Context, d time.Duration, err error) {
	o.mu.Lock()
	defer o.mu.Unlock()
	o.hcomplete++
	if err != nil {
		o.herrs++
	}
	if ctx.Value(obsTok{}) == nil && o.bad == "" {
		o.bad = "OnHandlerComplete was given a context that no OnHandlerStart returned"
	}
}
func (o *pairObs) OnPersistStart(ctx context.Context, t string, p int64) context.Context { return ctx }
func (o *pairObs) OnPersistComplete(ctx context.Context, d time.Duration, err error)     {}

func stressObs(r *rand.Rand) string {
	obs := &pairObs{}
	bus := eb.New(eb.WithObservability(obs))
	hold := make(chan struct{})
	var panics atomic.Int64
	eb.Subscribe(bus, func(e SEv) {
		if e.N == 0 {
			<-hold // the first invocation keeps the Sequential mutex
		}
		if e.N%5 == 4 {
			panics.Add(1)
			panic("boom")
		}
	}, eb.Sequential())
	var wg sync.WaitGroup
	wg.Add(1)
	go func() { defer wg.Done(); eb.Publish(bus, SEv{0, 0}) }()
	time.Sleep(200 * time.Microsecond)
	ctx, cancel := context.WithCancel(context.Background())
	wg.Add(1)
	go func() { defer wg.Done(); eb.PublishContext(bus, ctx, SEv{1, 1}) }() // blocks on the handler's mutex
	time.Sleep(time.Duration(100+r.Intn(300)) * time.Microsecond)
	cancel() // … and its context ends while it waits
	close(hold)
	if !waitTimeout(wg.Wait, 2*time.Second) {
		return "publishes to a Sequential handler do not return"
	}
	for i := 2; i < 12; i++ {
		eb.Publish(bus, SEv{2, i})
	}
	obs.mu.Lock()
	defer obs.mu.Unlock()
	if obs.bad != "" {
		return obs.bad
	}
	if obs.hstart != obs.hcomplete {
		return fmt.Sprintf("%d OnHandlerStart calls, %d OnHandlerComplete calls", obs.hstart, obs.hcomplete)
	}
	if int64(obs.herrs) != panics.Load() {
		return fmt.Sprintf("%d handler invocations panicked, OnHandlerComplete carried an error %d times", panics.Load(), obs.herrs)
	}
	return ""
}

func stressDomain(lines []string) []string {
	var out []string
	for _, line := range lines {
		f := strings.Fields(line)
		if len(f) != 3 {
			out = append(out, "bad-op "+line)
			continue
		}
		var sc func(*rand.Rand) string
		switch f[0] {
		case "regs":
			sc = stressRegs
		case "once":
			sc = stressOnce
		case "waiters":
			sc = stressWaiters
		case "seq":
			sc = stressSeq
		case "hooks":
			sc = stressHooks
		case "types":
			sc = stressTypes
		case "obs":
			sc = stressObs
		case "seqcancel":
			sc = stressSeqCancel
		case "seqburst":
			sc = stressSeqBurst
		default:
			out = append(out, "bad-op "+line)
			continue
		}
		// the panicking Sequential handler needs a panic handler-less bus to swallow it: ebu recovers handler panics itself
		r := rand.New(rand.NewSource(int64(atoi(f[1]))))
		verdict := f[0] + " ok"
		for i := 0; i < atoi(f[2]); i++ {
			if msg := sc(r); msg != "" {
				verdict = fmt.Sprintf("!%s round %d: %s", f[0], i, msg)
				break
			}
		}
		out = append(out, verdict)
	}
	return out
}

type seqCancelEv struct{ N int }

type seqBurstEv struct{ N int }

// stressSeqBurst (C07, the tie of M2t): one Async+Sequential handler that returns at once, one publisher that publishes a
// burst back to back, so that goroutines arrive at the ticket lock just while their predecessor hands the turn on – the
// window in which a wake-up could be lost. Every event is delivered exactly once, in publish order, and Wait returns
func stressSeqBurst(r *rand.Rand) string {
	bus := eb.New()
	n := 16 + r.Intn(64)
	got := make([]int, 0, n)
	eb.Subscribe(bus, func(e seqBurstEv) {
		got = append(got, e.N) // unsynchronised on purpose: Sequential invocations never overlap (and the race stress sees it)
	}, eb.Async(), eb.Sequential())
	for i := 0; i < n; i++ {
		eb.Publish(bus, seqBurstEv{i})
	}
	if !waitTimeout(bus.Wait, 5*time.Second) {
		return fmt.Sprintf("Async+Sequential handler: a burst of %d events, Wait does not return (a goroutine is parked in the ticket lock while its turn has come?)", n)
	}
	if len(got) != n {
		return fmt.Sprintf("Async+Sequential handler: %d of %d events of a burst delivered", len(got), n)
	}
	for i, v := range got {
		if v != i {
			return fmt.Sprintf("Async+Sequential handler: a burst processed in order %v", got)
		}
	}
	return ""
}

// stressSeqCancel: a synchronous Sequential handler is busy; a second publisher passes its context check and waits for the
// handler's mutex; its context is cancelled; once the mutex is free the handler must NOT be started for that event any more
// (the history of a defect repaired by fix 1feea95)
func stressSeqCancel(r *rand.Rand) string {
	if v := seqCancelWitness(time.Duration(20+r.Intn(40)) * time.Millisecond); v != "seqcancel started-after-cancel=0" {
		return "a synchronous Sequential handler was started for a publish whose context had been cancelled while the publisher waited for the handler's lock (" + v + ")"
	}
	return ""
}

func seqCancelWitness(settle time.Duration) string {
	bus := eb.New()
	inside, release := make(chan struct{}), make(chan struct{})
	var mu sync.Mutex
	var got []int
	_ = eb.Subscribe(bus, func(e seqCancelEv) {
		mu.Lock()
		got = append(got, e.N)
		mu.Unlock()
		if e.N == 1 {
			close(inside)
			<-release
		}
	}, eb.Sequential())
	go eb.Publish(bus, seqCancelEv{1})
	<-inside
	ctx, cancel := context.WithCancel(context.Background())
	done := make(chan struct{})
	go func() { eb.PublishContext(bus, ctx, seqCancelEv{2}); close(done) }()
	time.Sleep(settle) // the second publisher has passed its context check and waits for the mutex
	cancel()
	time.Sleep(5 * time.Millisecond)
	close(release)
	select {
	case <-done:
	case <-time.After(10 * time.Second):
		return "seqcancel hang"
	}
	mu.Lock()
	defer mu.Unlock()
	return fmt.Sprintf("seqcancel started-after-cancel=%s", b01(len(got) == 2))
}

func init() { domains["stress"] = stressDomain; _ = context.Background }

package main

import (
	"context"
	"fmt"
	"runtime"
	"strings"
	"sync"
	"time"

	eb "github.com/jilio/ebu"
)

// Domain "conc": real goroutines under a controlled scheduler (M2). Every goroutine parks at
// each yield point (API call, filter, handler entry/exit, the verifYield hook points) and runs
// only when the schedule – produced by the model – says so; a `probe` releases a goroutine the
// model says is blocked and expects it NOT to arrive anywhere.

type carrival struct {
	label string
	obs   []string
}

type cthread struct {
	id        int
	gate      chan struct{}
	arrived   chan carrival
	obs       []string
	armed     bool
	done      bool
	pending   *carrival // an arrival already received but not yet consumed
	lastLabel string
}

type concCase struct {
	bus      *eb.EventBus
	mu       sync.Mutex
	byGoid   map[int64]*cthread
	threads  []*cthread
	spawnTh  map[uint64]*cthread // hook spawn number -> thread
	spawnLo  map[uint64]int      // hook spawn number -> case-local number
	nextLo   int
	nextRid  int
	ctxs     map[int]context.Context
	cancels  map[int]context.CancelFunc
	out      []string
	jobEntry map[int]bool // async goroutine id -> its own handler was entered
}

var curConc *concCase

func goid() int64 {
	var buf [64]byte
	n := runtime.Stack(buf[:], false)
	// "goroutine 123 [running]:"
	s := string(buf[:n])
	s = strings.TrimPrefix(s, "goroutine ")
	var id int64
	for _, c := range s {
		if c < '0' || c > '9' {
			break
		}
		id = id*10 + int64(c-'0')
	}
	return id
}

func (cc *concCase) cur() *cthread {
	cc.mu.Lock()
	defer cc.mu.Unlock()
	return cc.byGoid[goid()]
}

func (ct *cthread) yield(label string) {
	a := carrival{label, ct.obs}
	ct.obs = nil
	ct.arrived <- a
	<-ct.gate
}

type cevt interface{ val() int }
type CT1 struct{ V int }
type CT36 struct{ V int } // main.CT36 hashes to the same registry shard as main.CT1
type CT9 struct{ V int }

func (e CT1) val() int  { return e.V }
func (e CT36) val() int { return e.V }
func (e CT9) val() int  { return e.V }

func (cc *concCase) publishTy(ctx context.Context, ty, v int) {
	switch ty {
	case 1:
		eb.PublishContext(cc.bus, ctx, CT1{v})
	case 2:
		eb.PublishContext(cc.bus, ctx, CT36{v})
	default:
		eb.PublishContext(cc.bus, ctx, CT9{v})
	}
}

// handler body shared by all handler literals
func (cc *concCase) handle(rid, ty int, body [][2]int, e cevt) {
	ct := cc.cur()
	if ct == nil {
		return
	}
	// async flag: this goroutine was started for an async handler and this is its own handler
	async := false
	cc.mu.Lock()
	if j, ok := cc.jobEntry[ct.id]; ok && !j {
		async = true
		cc.jobEntry[ct.id] = true
	}
	cc.mu.Unlock()
	ct.obs = append(ct.obs, fmt.Sprintf("enter:%d:%d:%d:%s", rid, ty, e.val(), b01(async)))
	ct.yield(fmt.Sprintf("enter:%d", rid))
	for _, ev := range body {
		cc.publishTy(context.Background(), ev[0], ev[1])
		ct.obs = append(ct.obs, "ret")
		ct.yield("op")
	}
	ct.obs = append(ct.obs, fmt.Sprintf("exit:%d", rid))
	ct.yield(fmt.Sprintf("exit:%d", rid))
}

//go:noinline
func concLit[T cevt](cc *concCase, hid, rid, ty int, body [][2]int) func(T) {
	switch hid {
	case 0:
		return func(e T) { cc.handle(rid, ty, body, e) }
	case 1:
		return func(e T) { cc.handle(rid, ty, body, e); _ = 1 }
	case 2:
		return func(e T) { cc.handle(rid, ty, body, e); _ = 2 }
	default:
		return func(e T) { cc.handle(rid, ty, body, e); _ = 3 }
	}
}

func concSubscribe[T cevt](cc *concCase, ty, hid int, once, async, seq bool, fm, fr int, body [][2]int) {
	cc.mu.Lock()
	rid := cc.nextRid
	cc.nextRid++
	cc.mu.Unlock()
	var opts []eb.SubscribeOption
	if once {
		opts = append(opts, sharedOnce) // option values reused across subscriptions, see bus.go
	}
	if async {
		opts = append(opts, sharedAsync)
	}
	if seq {
		opts = append(opts, sharedSequential)
	}
	if fm > 0 {
		opts = append(opts, eb.WithFilter(func(e T) bool {
			ct := cc.cur()
			ok := e.val()%fm == fr
			if ct != nil {
				ct.yield(fmt.Sprintf("filter:%d", rid))
				ct.obs = append(ct.obs, fmt.Sprintf("filt:%d:%d:%s", rid, e.val(), b01(ok)))
			}
			return ok
		}))
	}
	if err := eb.Subscribe(cc.bus, concLit[T](cc, hid, rid, ty, body), opts...); err != nil {
		panic(err)
	}
}

func concUnsub[T cevt](cc *concCase, ty, hid int) error {
	return eb.Unsubscribe[T](cc.bus, concLit[T](cc, hid, -1, ty, nil))
}

func (cc *concCase) ctxFor(tok string) context.Context {
	if tok == "bg" {
		return context.Background()
	}
	k := atoi(tok)
	cc.mu.Lock()
	defer cc.mu.Unlock()
	if c, ok := cc.ctxs[k]; ok {
		return c
	}
	c, cancel := context.WithCancel(context.Background())
	cc.ctxs[k], cc.cancels[k] = c, cancel
	return c
}

func parseBody(s string) [][2]int {
	if s == "-" {
		return nil
	}
	var out [][2]int
	for _, p := range strings.Split(s, ",") {
		ab := strings.Split(p, ":")
		out = append(out, [2]int{atoi(ab[0]), atoi(ab[1])})
	}
	return out
}

func (cc *concCase) runOp(ct *cthread, f []string) {
	switch f[0] {
	case "sub":
		ty, hid := atoi(f[1]), atoi(f[2])
		fm, fr := 0, 0
		if f[6] != "-" {
			mr := strings.Split(f[6], ":")
			fm, fr = atoi(mr[0]), atoi(mr[1])
		}
		body := parseBody(f[7])
		switch ty {
		case 1:
			concSubscribe[CT1](cc, ty, hid, f[3] == "1", f[4] == "1", f[5] == "1", fm, fr, body)
		case 2:
			concSubscribe[CT36](cc, ty, hid, f[3] == "1", f[4] == "1", f[5] == "1", fm, fr, body)
		default:
			concSubscribe[CT9](cc, ty, hid, f[3] == "1", f[4] == "1", f[5] == "1", fm, fr, body)
		}
	case "unsub":
		ty, hid := atoi(f[1]), atoi(f[2])
		var err error
		switch ty {
		case 1:
			err = concUnsub[CT1](cc, ty, hid)
		case 2:
			err = concUnsub[CT36](cc, ty, hid)
		default:
			err = concUnsub[CT9](cc, ty, hid)
		}
		ct.obs = append(ct.obs, fmt.Sprintf("unsub:%d:%d:%s", ty, hid, b01(err == nil)))
	case "clear":
		switch atoi(f[1]) {
		case 1:
			eb.Clear[CT1](cc.bus)
		case 2:
			eb.Clear[CT36](cc.bus)
		default:
			eb.Clear[CT9](cc.bus)
		}
	case "pub":
		cc.publishTy(cc.ctxFor(f[3]), atoi(f[1]), atoi(f[2]))
	case "cancel":
		cc.ctxFor(f[1])
		cc.mu.Lock()
		c := cc.cancels[atoi(f[1])]
		cc.mu.Unlock()
		c()
	case "wait":
		cc.bus.Wait()
	case "count":
		n := 0
		switch atoi(f[1]) {
		case 1:
			n = eb.HandlerCount[CT1](cc.bus)
		case 2:
			n = eb.HandlerCount[CT36](cc.bus)
		default:
			n = eb.HandlerCount[CT9](cc.bus)
		}
		ct.obs = append(ct.obs, fmt.Sprintf("count:%s:%d", f[1], n))
	}
}

func concYield(point string, h uintptr, n uint64) {
	cc := curConc
	if cc == nil {
		return
	}
	switch point {
	case "publish.spawn":
		ct := cc.cur()
		if ct == nil {
			return
		}
		cc.mu.Lock()
		cc.nextLo++
		lo := cc.nextLo
		cc.spawnLo[n] = lo
		nt := &cthread{id: -1, gate: make(chan struct{}), arrived: make(chan carrival, 4)}
		cc.spawnTh[n] = nt
		cc.mu.Unlock()
		ct.yield(fmt.Sprintf("spawn:%d", lo))
		ct.obs = append(ct.obs, fmt.Sprintf("spawned:%d", lo))
	case "async.start":
		cc.mu.Lock()
		nt := cc.spawnTh[n]
		if nt != nil {
			cc.byGoid[goid()] = nt
		}
		cc.mu.Unlock()
		if nt != nil {
			nt.yield("astart")
		}
	case "async.turn":
		if ct := cc.cur(); ct != nil {
			ct.yield("turn")
		}
	case "async.end":
		if ct := cc.cur(); ct != nil {
			ct.yield("aend")
			cc.mu.Lock()
			delete(cc.byGoid, goid())
			cc.mu.Unlock()
		}
	case "publish.snapshot":
		if ct := cc.cur(); ct != nil {
			ct.yield("snap")
		}
	case "publish.claimed":
		if ct := cc.cur(); ct != nil {
			ct.yield("claimed")
		}
	case "handler.lock":
		if ct := cc.cur(); ct != nil {
			ct.yield("lock")
		}
	case "publish.retire":
		if ct := cc.cur(); ct != nil {
			ct.yield("retire")
		}
	case "publish.retired":
		if ct := cc.cur(); ct != nil {
			ct.yield("retired")
		}
	}
}

const concStepTimeout = 3 * time.Second
const concProbeWait = 40 * time.Millisecond

func (cc *concCase) waitArrival(ct *cthread, d time.Duration) (carrival, bool) {
	if ct.pending != nil {
		a := *ct.pending
		ct.pending = nil
		return a, true
	}
	select {
	case a := <-ct.arrived:
		return a, true
	case <-time.After(d):
		return carrival{}, false
	}
}

func concDomain(lines []string) []string {
	cc := &concCase{byGoid: map[int64]*cthread{}, spawnTh: map[uint64]*cthread{}, spawnLo: map[uint64]int{}, ctxs: map[int]context.Context{}, cancels: map[int]context.CancelFunc{}}
	cc.jobEntry = map[int]bool{}
	cc.bus = eb.New()
	curConc = cc
	eb.VerifYield = concYield
	defer func() { curConc = nil }()
	var progs [][][]string
	var sched [][]string
	for _, line := range lines {
		f := strings.Fields(line)
		switch f[0] {
		case "seed", "probe":
		case "thread":
			progs = append(progs, nil)
		case "sched":
			sched = append(sched, f[1:])
		default:
			if len(progs) == 0 {
				progs = append(progs, nil)
			}
			progs[len(progs)-1] = append(progs[len(progs)-1], f)
		}
	}
	// start the program threads; each parks at its first "op" yield
	for i, prog := range progs {
		ct := &cthread{id: i, gate: make(chan struct{}), arrived: make(chan carrival, 4)}
		cc.threads = append(cc.threads, ct)
		started := make(chan struct{})
		go func(ct *cthread, prog [][]string) {
			cc.mu.Lock()
			cc.byGoid[goid()] = ct
			cc.mu.Unlock()
			close(started)
			for _, op := range prog {
				ct.yield("op")
				cc.runOp(ct, op)
				if op[0] != "pub" || true {
					ct.obs = append(ct.obs, "ret")
				}
			}
			ct.yield("op")
			ct.obs = append(ct.obs, "fin")
			ct.arrived <- carrival{"done", ct.obs}
		}(ct, prog)
		<-started
		if _, ok := cc.waitArrival(ct, concStepTimeout); !ok {
			return []string{"!HANG thread did not start"}
		}
	}
	for k, s := range sched {
		// unexpected arrivals of armed (supposedly blocked) threads; threads whose forced step
		// (fstep) is coming up next are expected to arrive on their own
		coming := map[int]bool{}
		if len(s) > 1 {
			coming[atoi(s[1])] = true
		}
		for j := k; j < len(sched) && len(sched[j]) > 1 && (j == k || sched[j][0] == "fstep"); j++ {
			if sched[j][0] == "fstep" {
				coming[atoi(sched[j][1])] = true
			}
		}
		for _, t := range cc.threads {
			if t.armed && t.pending == nil && !coming[t.id] {
				select {
				case a := <-t.arrived:
					t.pending = &a
					cc.out = append(cc.out, fmt.Sprintf("!unexpected-arrival %d at=%s %s", t.id, a.label, strings.Join(a.obs, " ")))
				default:
				}
			}
		}
		if len(s) < 2 {
			continue
		}
		i := atoi(s[1])
		if i >= len(cc.threads) {
			cc.out = append(cc.out, fmt.Sprintf("!no-such-thread %d", i))
			break
		}
		ct := cc.threads[i]
		switch s[0] {
		case "probe":
			ct.gate <- struct{}{}
			if a, ok := cc.waitArrival(ct, concProbeWait); ok {
				ct.pending = &a
				cc.out = append(cc.out, fmt.Sprintf("probe %d !arrived at=%s %s", i, a.label, strings.Join(a.obs, " ")))
			} else {
				cc.out = append(cc.out, fmt.Sprintf("probe %d blocked", i))
			}
			ct.armed = true
		case "step", "fstep":
			if ct.done {
				cc.out = append(cc.out, fmt.Sprintf("!step-finished-thread %d", i))
				continue
			}
			if !ct.armed {
				if ct.lastLabel == "aend" {
					// the goroutine only has wg.done() left: nothing to wait for
					ct.gate <- struct{}{}
					ct.done = true
					cc.out = append(cc.out, fmt.Sprintf("%s %d at=done fin", s[0], i))
					continue
				}
				ct.gate <- struct{}{}
			}
			ct.armed = false
			a, ok := cc.waitArrival(ct, concStepTimeout)
			if !ok {
				cc.out = append(cc.out, fmt.Sprintf("!HANG thread %d did not reach a yield point", i))
				return cc.out
			}
			ct.lastLabel = a.label
			if a.label == "done" {
				ct.done = true
			}
			parts := append([]string{}, a.obs...)
			// goroutines created by this step: wait until they are parked at async.start
			for _, o := range a.obs {
				if strings.HasPrefix(o, "spawned:") {
					lo := atoi(o[len("spawned:"):])
					var nt *cthread
					cc.mu.Lock()
					for n, l := range cc.spawnLo {
						if l == lo {
							nt = cc.spawnTh[n]
						}
					}
					cc.mu.Unlock()
					if nt == nil {
						cc.out = append(cc.out, "!spawn-unknown")
						continue
					}
					if _, ok := cc.waitArrival(nt, concStepTimeout); !ok {
						cc.out = append(cc.out, "!HANG spawned goroutine did not start")
						return cc.out
					}
					nt.id = len(cc.threads)
					nt.lastLabel = "astart"
					cc.threads = append(cc.threads, nt)
					cc.mu.Lock()
					cc.jobEntry[nt.id] = false
					cc.mu.Unlock()
					parts = append(parts, fmt.Sprintf("new:%d", nt.id))
				}
			}
			cc.out = append(cc.out, strings.TrimSpace(fmt.Sprintf("%s %d at=%s %s", s[0], i, a.label, strings.Join(parts, " "))))
		case "end", "deadlock":
		}
	}
	// the model's verdict line
	allDone := true
	for _, t := range cc.threads {
		if !t.done {
			allDone = false
		}
	}
	if allDone {
		cc.out = append(cc.out, "end")
	} else {
		cc.out = append(cc.out, "deadlock")
		// release everything so that no goroutine leaks into the next case (best effort)
	}
	return cc.out
}

func init() { domains["conc"] = concDomain }

package main

import (
	"context"
	"errors"
	"fmt"
	"strings"
	"sync"
	"sync/atomic"
	"time"

	eb "github.com/jilio/ebu"
)

// Domain "shutdown": EventBus.Shutdown against blocked async handlers, context expiry and a
// store with a counting Close (M2s, C06).

type SE struct{ V int }

// SE2 is published by every SE handler when it is let go: asynchronous work that itself publishes (and persists)
type SE2 struct{ V int }

type closeStore struct {
	closes atomic.Int64
	fails  bool
}

func (c *closeStore) Append(ctx context.Context, e *eb.Event) (eb.Offset, error) { return "1", nil }
func (c *closeStore) Read(ctx context.Context, from eb.Offset, limit int) ([]*eb.StoredEvent, eb.Offset, error) {
	return nil, from, nil
}

type closerStore struct{ *closeStore }

func (c closerStore) Close() error {
	c.closes.Add(1)
	if c.fails {
		return errors.New("close failed")
	}
	return nil
}

func shutdownDomain(lines []string) []string {
	var out []string
	cs := &closeStore{}
	hasCloser := true
	var bus *eb.EventBus
	gate := make(chan struct{})
	var finished sync.WaitGroup
	ctx, cancel := context.WithCancel(context.Background())
	defer cancel()
	init := func() {
		if bus != nil {
			return
		}
		if hasCloser {
			bus = eb.New(eb.WithStore(closerStore{cs}))
		} else {
			bus = eb.New(eb.WithStore(cs))
		}
		eb.Subscribe(bus, func(e SE) {
			<-gate
			eb.Publish(bus, SE2{e.V}) // needs the bus's store lock: Shutdown must not hold it while it waits for us
			finished.Done()
		}, eb.Async())
		eb.Subscribe(bus, func(e SE2) {}, eb.Async())
	}
	var pending chan error
	show := func(err error) string {
		switch {
		case err == nil:
			return "nil"
		case errors.Is(err, context.Canceled):
			return "ctxerr"
		case strings.Contains(err.Error(), "close"):
			return "closeerr"
		}
		return "?" + err.Error()
	}
	settle := func() {
		if pending == nil {
			return
		}
		select {
		case err := <-pending:
			pending = nil
			out = append(out, "shutdown-> "+show(err))
		case <-time.After(150 * time.Millisecond):
		}
	}
	for _, line := range lines {
		f := strings.Fields(line)
		switch f[0] {
		case "closer":
			hasCloser, cs.fails = f[1] == "1", f[2] == "1"
			continue
		}
		init()
		switch f[0] {
		case "async":
			for i := 0; i < atoi(f[1]); i++ {
				finished.Add(1)
				eb.Publish(bus, SE{i})
			}
			out = append(out, "async")
		case "release":
			for i := 0; i < atoi(f[1]); i++ {
				gate <- struct{}{}
			}
			time.Sleep(3 * time.Millisecond) // let the goroutines run their deferred wg.done()
			out = append(out, "release")
			settle()
		case "cancel":
			cancel()
			out = append(out, "cancel")
			settle()
		case "shutdown":
			ch := make(chan error, 1)
			go func() { ch <- bus.Shutdown(ctx) }()
			select {
			case err := <-ch:
				out = append(out, "shutdown "+show(err))
			case <-time.After(150 * time.Millisecond):
				pending = ch
				out = append(out, "shutdown blocked")
			}
		case "shutdownc":
			// a Shutdown call with a context of its own that is cancelled 20 ms into the call
			c2, cancel2 := context.WithCancel(context.Background())
			ch := make(chan error, 1)
			go func() { ch <- bus.Shutdown(c2) }()
			time.Sleep(20 * time.Millisecond)
			cancel2()
			select {
			case err := <-ch:
				out = append(out, "shutdownc "+show(err))
			case <-time.After(2 * time.Second):
				out = append(out, "!shutdownc did not return although its context was cancelled")
			}
		case "final":
			time.Sleep(30 * time.Millisecond) // a late Close by an abandoned goroutine shows up here
			out = append(out, fmt.Sprintf("final closes=%d", cs.closes.Load()))
		default:
			out = append(out, "bad-op "+line)
		}
	}
	return out
}

func init() { domains["shutdown"] = shutdownDomain }

package main

import (
	"context"
	"encoding/base64"
	"encoding/json"
	"fmt"
	"math/rand"
	"net/http"
	"net/http/httptest"
	"reflect"
	"sort"
	"strings"
	"time"

	dss "github.com/ahimsalabs/durable-streams-go/durablestream"
	"github.com/ahimsalabs/durable-streams-go/durablestream/memorystorage"
	eb "github.com/jilio/ebu"
	"github.com/jilio/ebu/state"
	ebds "github.com/jilio/ebu/stores/durablestream"
	ebsql "github.com/jilio/ebu/stores/sqlite"
)

// Domain "state": state-protocol helpers -> publish -> store -> Materializer.Replay (M7).

type E1 struct {
	ID     int      `json:"id"`
	Name   string   `json:"name"`
	Tags   []string `json:"tags,omitempty"`
	Nested *E1      `json:"nested,omitempty"`
	F      float64  `json:"f"`
}

type E2 struct {
	ID int            `json:"id"`
	M  map[string]int `json:"m"`
}

func (E2) StateTypeName() string { return "e2/x" }

type E3 struct {
	ID int    `json:"id"`
	S  string `json:"s"`
	P  PStamp `json:"p"`
}

// PStamp has its JSON codec on the POINTER receiver: it is used only where the value is addressable (as it is when the
// helpers are handed the entity the way they take it today)
type PStamp struct{ N int }

func (p *PStamp) MarshalJSON() ([]byte, error) { return []byte(fmt.Sprintf(`"ps:%d"`, p.N)), nil }
func (p *PStamp) UnmarshalJSON(b []byte) error {
	var str string
	if err := json.Unmarshal(b, &str); err != nil {
		return err
	}
	if _, err := fmt.Sscanf(str, "ps:%d", &p.N); err != nil {
		return fmt.Errorf("bad stamp %q", str)
	}
	return nil
}

// E4 is never registered; E5 has an `id` that does not decode into E1..E3.
type E4 struct {
	ID int `json:"id"`
}
type E5 struct {
	ID string `json:"id"`
}

var keyPool = []string{"", "a", "b/c", "/", "ünï✓", "a/b", "k with space", strings.Repeat("long", 30), "\"q\"", "e2/x/a"}

func entName(ty int) string {
	switch ty {
	case 1:
		return state.EntityType(E1{})
	case 2:
		return state.EntityType(E2{})
	case 3:
		return state.EntityType(E3{})
	}
	if ty == 6 {
		return "custom.Entity-6"
	}
	return state.EntityType(E4{})
}

var namePool = []string{"", "plain", "ünï", "q\"uote", "<&>", "new\nline"}

// mkE1/mkE2/mkE3: THE value with index v (0 = the zero value); every write of value v, through the
// helpers or as a raw document (checklib/domains/state.py doc_for), writes exactly this entity, so the
// dump can tell whether a collection holds the value that was last written or a mixture
func mkE2(v int) E2 {
	if v == 0 {
		return E2{}
	}
	if v >= 1000 { // written as the id-only type E4
		return E2{ID: v}
	}
	e := E2{ID: v}
	if v%5 != 0 {
		e.M = map[string]int{fmt.Sprintf("k%d", v%3): v}
	}
	return e
}

func mkE3(v int) E3 {
	if v == 0 {
		return E3{}
	}
	if v >= 1000 { // written as the id-only type E4
		return E3{ID: v}
	}
	return E3{ID: v, S: namePool[v%len(namePool)], P: PStamp{N: v % 7}}
}

func mkE1(v int) E1 {
	if v == 0 {
		return E1{}
	}
	if v >= 1000 { // written as the id-only type E4
		return E1{ID: v}
	}
	e := E1{ID: v, Name: namePool[v%len(namePool)], F: float64(v) * 0.25}
	if v%3 == 0 {
		e.Tags = []string{"t", fmt.Sprint(v)}
	}
	if v%4 == 1 {
		e.Nested = &E1{ID: v, Name: "n"}
	}
	return e
}

type stateCase struct {
	strict bool
	bus    *eb.EventBus
	store  eb.EventStore
	regs   []int
	mat    *state.Materializer
	c1     *state.TypedCollection[E1]
	c2     *state.TypedCollection[E2]
	c3     *state.TypedCollection[E3]
	c6     *state.TypedCollection[E1] // registered under an explicit entity type name (NewTypedCollectionWithType)
	cbs    []string
	out    []string
	close  []func()
	rawN   int
	want   wantHeaders // what the options of the next helper call must put into the headers
}

type wantHeaders struct {
	set  bool
	tx   string
	ts   string // explicit timestamp, formatted
	auto bool   // WithAutoTimestamp
	t0   time.Time
}

func (sc *stateCase) newMat() {
	opts := []state.MaterializerOption{
		state.WithOnReset(func() { sc.cbs = append(sc.cbs, "reset") }),
		state.WithOnSnapshot(func(start bool) {
			if start {
				sc.cbs = append(sc.cbs, "snap1")
			} else {
				sc.cbs = append(sc.cbs, "snap0")
			}
		}),
		state.WithOnError(func(error) { sc.cbs = append(sc.cbs, "error") }),
	}
	if sc.strict {
		opts = append(opts, state.WithStrictSchema())
	}
	sc.mat = state.NewMaterializer(opts...)
	sc.c1, sc.c2, sc.c3, sc.c6 = nil, nil, nil, nil
	sc.cbs = nil
	for _, ty := range sc.regs {
		sc.register(ty)
	}
}

func (sc *stateCase) register(ty int) {
	switch ty {
	case 1:
		if sc.c1 == nil {
			sc.c1 = state.NewTypedCollection[E1](state.NewMemoryStore[E1]())
			state.RegisterCollection(sc.mat, sc.c1)
		}
	case 2:
		if sc.c2 == nil {
			sc.c2 = state.NewTypedCollection[E2](state.NewMemoryStore[E2]())
			state.RegisterCollection(sc.mat, sc.c2)
		}
	case 3:
		if sc.c3 == nil {
			sc.c3 = state.NewTypedCollection[E3](state.NewMemoryStore[E3]())
			state.RegisterCollection(sc.mat, sc.c3)
		}
	case 6:
		if sc.c6 == nil {
			sc.c6 = state.NewTypedCollectionWithType[E1](state.NewMemoryStore[E1](), entName(6))
			state.RegisterCollection(sc.mat, sc.c6)
		}
	}
}

// getAgrees: Get(key) of a typed collection returns exactly what All() holds under CompositeKey(type, key)
func getAgrees[T any](c *state.TypedCollection[T], name string) string {
	for ck, e := range c.All() {
		key := strings.TrimPrefix(ck, state.CompositeKey(name, ""))
		if state.CompositeKey(c.EntityType(), key) != ck {
			return fmt.Sprintf("!collection %s holds a key outside its type: %q", name, ck)
		}
		got, ok := c.Get(key)
		if !ok || !reflect.DeepEqual(got, e) {
			return fmt.Sprintf("!Get(%q) of collection %s disagrees with All()", key, name)
		}
	}
	if _, ok := c.Get("no-such-key-\x00"); ok {
		return fmt.Sprintf("!Get of collection %s finds a key that was never written", name)
	}
	return ""
}

func keyCode(s string) int {
	for i, k := range keyPool {
		if k == s {
			return i
		}
	}
	return 999
}

func dumpColl[T any](name string, all map[string]T, id func(T) int, canon func(int) T) string {
	type kv struct {
		k, v int
		raw  string
		mix  string
	}
	var l []kv
	for ck, e := range all {
		mix := ""
		if !reflect.DeepEqual(e, canon(id(e))) {
			b, _ := json.Marshal(e)
			mix = "!NOT-THE-WRITTEN-VALUE:" + string(b)
		}
		l = append(l, kv{keyCode(strings.TrimPrefix(ck, name+"/")), id(e), ck, mix})
	}
	sort.Slice(l, func(i, j int) bool {
		if l[i].k != l[j].k {
			return l[i].k < l[j].k
		}
		return l[i].raw < l[j].raw
	})
	parts := make([]string, len(l))
	for i, p := range l {
		parts[i] = fmt.Sprintf("%d=%d%s", p.k, p.v, p.mix)
	}
	return "{" + strings.Join(parts, ",") + "}"
}

func offNum(o eb.Offset) int {
	s := string(o)
	if i := strings.Index(s, "/"); i >= 0 {
		s = s[:i]
	}
	return atoi(strings.TrimLeft(s, "0"))
}

func (sc *stateCase) dump() string {
	var parts []string
	for _, ty := range sc.regs {
		switch ty {
		case 1:
			parts = append(parts, "1:"+dumpColl(entName(1), sc.c1.All(), func(e E1) int { return e.ID }, mkE1))
		case 2:
			parts = append(parts, "2:"+dumpColl(entName(2), sc.c2.All(), func(e E2) int { return e.ID }, mkE2))
		case 3:
			parts = append(parts, "3:"+dumpColl(entName(3), sc.c3.All(), func(e E3) int { return e.ID }, mkE3))
		case 6:
			parts = append(parts, "6:"+dumpColl(entName(6), sc.c6.All(), func(e E1) int { return e.ID }, mkE1))
		}
	}
	for _, ty := range sc.regs {
		bad := ""
		switch ty {
		case 1:
			bad = getAgrees(sc.c1, entName(1))
		case 2:
			bad = getAgrees(sc.c2, entName(2))
		case 3:
			bad = getAgrees(sc.c3, entName(3))
		case 6:
			bad = getAgrees(sc.c6, entName(6))
		}
		if bad != "" {
			return bad
		}
	}
	cbs := "-"
	if len(sc.cbs) > 0 {
		cbs = strings.Join(sc.cbs, ",")
	}
	return fmt.Sprintf("state off=%d cbs=%s | %s", offNum(sc.mat.LastOffset()), cbs, strings.Join(parts, " "))
}

func optS(s string) string {
	if s == "" {
		return "-"
	}
	return s
}

func (sc *stateCase) publishChange(m *state.ChangeMessage, err error) {
	w := sc.want
	sc.want = wantHeaders{}
	if err != nil {
		sc.out = append(sc.out, "helper-error")
		return
	}
	// the headers are what the options said: transaction id verbatim; an explicit timestamp in RFC 3339 with
	// nanoseconds and its own zone; WithAutoTimestamp: the current time in UTC; an explicit one wins; none otherwise
	if m.Headers.TxID != w.tx {
		sc.out = append(sc.out, fmt.Sprintf("!txid header is %q, the option said %q", m.Headers.TxID, w.tx))
	}
	switch {
	case w.ts != "":
		if m.Headers.Timestamp != w.ts {
			sc.out = append(sc.out, fmt.Sprintf("!timestamp header is %q, the option said %q", m.Headers.Timestamp, w.ts))
		}
	case w.auto:
		t, perr := time.Parse(time.RFC3339Nano, m.Headers.Timestamp)
		if perr != nil || !strings.HasSuffix(m.Headers.Timestamp, "Z") || t.Before(w.t0.Add(-time.Second)) || t.After(time.Now().Add(time.Second)) {
			sc.out = append(sc.out, fmt.Sprintf("!automatic timestamp header is %q at %s", m.Headers.Timestamp, w.t0.UTC().Format(time.RFC3339Nano)))
		}
		m.Headers.Timestamp = "auto" // (not reproducible: the wire check and the trace see a fixed word)
	default:
		if m.Headers.Timestamp != "" {
			sc.out = append(sc.out, fmt.Sprintf("!timestamp header %q without a timestamp option", m.Headers.Timestamp))
		}
	}
	b, _ := json.Marshal(m)
	sc.out = append(sc.out, fmt.Sprintf("~wire change %s %s %s %s %s %s %s | %s",
		base64.StdEncoding.EncodeToString([]byte(m.Type)), base64.StdEncoding.EncodeToString([]byte(m.Key)), m.Headers.Operation,
		b01(m.Value != nil), b01(m.OldValue != nil), optS(m.Headers.TxID), optS(m.Headers.Timestamp), base64.StdEncoding.EncodeToString(b)))
	eb.Publish(sc.bus, *m)
	sc.out = append(sc.out, "pub")
}

func (sc *stateCase) changeOpts(f []string) []state.ChangeOption {
	var o []state.ChangeOption
	sc.want = wantHeaders{set: true, t0: time.Now()}
	for _, w := range f {
		switch {
		case strings.HasPrefix(w, "tx="):
			o = append(o, state.WithTxID(w[3:]))
			sc.want.tx = w[3:]
		case strings.HasPrefix(w, "ts="):
			t := time.Unix(int64(atoi(w[3:])), 5).In(time.FixedZone("z", 3600))
			o = append(o, state.WithTimestamp(t))
			sc.want.ts = t.Format(time.RFC3339Nano)
		case w == "auto":
			o = append(o, state.WithAutoTimestamp())
			sc.want.auto = true
		case strings.HasPrefix(w, "et="):
			o = append(o, state.WithEntityType(entName(atoi(w[3:]))))
		}
	}
	return o
}

func stateDomain(lines []string) []string {
	sc := &stateCase{}
	defer func() {
		for _, c := range sc.close {
			c()
		}
	}()
	sc.store = eb.NewMemoryStore()
	init := func() {
		if sc.bus == nil {
			sc.bus = eb.New(eb.WithStore(sc.store))
			sc.newMat()
		}
	}
	ctx := context.Background()
	for _, line := range lines {
		f := strings.Fields(line)
		switch f[0] {
		case "strict":
			sc.strict = f[1] == "1"
			continue
		case "store":
			switch f[1] {
			case "sqlite":
				s, err := ebsql.New(":memory:")
				if err != nil {
					return append(sc.out, "!sqlite "+err.Error())
				}
				sc.store = s
				sc.close = append(sc.close, func() { s.Close() })
			case "ds":
				h := dss.NewHandler(memorystorage.New(), nil)
				mux := http.NewServeMux()
				mux.Handle("/v1/stream/", http.StripPrefix("/v1/stream/", h))
				srv := httptest.NewServer(mux)
				sc.close = append(sc.close, srv.Close)
				s, err := ebds.New(srv.URL+"/v1/stream", "s")
				if err != nil {
					return append(sc.out, "!ds "+err.Error())
				}
				sc.store = s
			}
			continue
		}
		init()
		arg := func(i int) int { return atoi(f[i]) }
		switch f[0] {
		case "reg":
			sc.regs = append(sc.regs, arg(1))
			sc.register(arg(1))
			sc.out = append(sc.out, "reg")
		case "ins", "upd":
			ty, key, v := arg(1), keyPool[arg(2)], arg(3)
			o := sc.changeOpts(f[4:])
			ins := f[0] == "ins"
			switch ty {
			case 1:
				if ins {
					sc.publishChange(state.Insert(key, mkE1(v), o...))
				} else {
					sc.publishChange(state.Update(key, mkE1(v), o...))
				}
			case 2:
				if ins {
					sc.publishChange(state.Insert(key, mkE2(v), o...))
				} else {
					sc.publishChange(state.Update(key, mkE2(v), o...))
				}
			case 3:
				if ins {
					sc.publishChange(state.Insert(key, mkE3(v), o...))
				} else {
					sc.publishChange(state.Update(key, mkE3(v), o...))
				}
			case 5: // undecodable value for the entity type named by et=
				sc.publishChange(state.Insert(key, E5{ID: "x"}, o...))
			default:
				sc.publishChange(state.Insert(key, E4{ID: v}, o...))
			}
		case "updold":
			ty, key, v, old := arg(1), keyPool[arg(2)], arg(3), arg(4)
			o := sc.changeOpts(f[5:])
			switch ty {
			case 1:
				sc.publishChange(state.UpdateWithOldValue(key, mkE1(v), mkE1(old), o...))
			case 2:
				sc.publishChange(state.UpdateWithOldValue(key, mkE2(v), mkE2(old), o...))
			default:
				sc.publishChange(state.UpdateWithOldValue(key, mkE3(v), mkE3(old), o...))
			}
		case "del":
			ty, key := arg(1), keyPool[arg(2)]
			o := sc.changeOpts(f[3:])
			switch ty {
			case 1:
				sc.publishChange(state.Delete[E1](key, o...))
			case 2:
				sc.publishChange(state.Delete[E2](key, o...))
			case 3:
				sc.publishChange(state.Delete[E3](key, o...))
			default:
				sc.publishChange(state.Delete[E4](key, o...))
			}
		case "delold":
			ty, key, old := arg(1), keyPool[arg(2)], arg(3)
			switch ty {
			case 1:
				sc.publishChange(state.DeleteWithOldValue(key, mkE1(old)))
			case 2:
				sc.publishChange(state.DeleteWithOldValue(key, mkE2(old)))
			default:
				sc.publishChange(state.DeleteWithOldValue(key, mkE3(old)))
			}
		case "ctl":
			off := ""
			if len(f) > 2 {
				off = f[2]
			}
			var m *state.ControlMessage
			switch f[1] {
			case "reset":
				m = state.Reset(off)
			case "snapstart":
				m = state.SnapshotStart(off)
			default:
				m = state.SnapshotEnd(off)
			}
			b, _ := json.Marshal(m)
			sc.out = append(sc.out, fmt.Sprintf("~wire control %s %s | %s", m.Headers.Control, optS(m.Headers.Offset), base64.StdEncoding.EncodeToString(b)))
			eb.Publish(sc.bus, *m)
			sc.out = append(sc.out, "pub")
		case "raw":
			// raw <class tokens…> | <base64 of the event data>
			i := strings.Index(line, "|")
			data, err := base64.StdEncoding.DecodeString(strings.TrimSpace(line[i+1:]))
			if err != nil {
				sc.out = append(sc.out, "bad-op "+line)
				continue
			}
			if _, err := sc.store.Append(ctx, &eb.Event{Type: "state.ChangeMessage", Data: data, Timestamp: time.Unix(1, 0).UTC()}); err != nil {
				sc.out = append(sc.out, "raw append-rejected")
				continue
			}
			sc.out = append(sc.out, "pub")
		case "replay":
			err := sc.replaySafe(ctx)
			if err != nil {
				sc.out = append(sc.out, "replay err")
			} else {
				sc.out = append(sc.out, "replay ok")
			}
			sc.out = append(sc.out, sc.dump())
		case "fresh":
			sc.newMat()
			sc.out = append(sc.out, "fresh")
		case "fuzz":
			sc.out = append(sc.out, sc.fuzz(int64(arg(1)), arg(2))...)
		default:
			sc.out = append(sc.out, "bad-op "+line)
		}
	}
	return sc.out
}

func (sc *stateCase) replaySafe(ctx context.Context) (err error) {
	defer func() {
		if r := recover(); r != nil {
			sc.out = append(sc.out, fmt.Sprintf("!panic in Materializer.Replay: %v", r))
			err = fmt.Errorf("panic")
		}
	}()
	return sc.mat.Replay(ctx, sc.bus, sc.mat.LastOffset())
}

// fuzz feeds mutated and random byte strings to Apply and checks, on the implementation
// itself, that nothing panics and that an error leaves collections and LastOffset unchanged.
func (sc *stateCase) fuzz(seed int64, n int) []string {
	rng := rand.New(rand.NewSource(seed))
	seeds := [][]byte{}
	m1, _ := state.Insert("a", mkE1(3), state.WithTxID("t"))
	b1, _ := json.Marshal(m1)
	m2, _ := state.Delete[E2]("b/c")
	b2, _ := json.Marshal(m2)
	b3, _ := json.Marshal(state.Reset("7"))
	seeds = append(seeds, b1, b2, b3, []byte(`{"headers":{"control":5}}`), []byte(`{"TYPE":"main.E1","KEY":"a","value":{"id":1},"Headers":{"Operation":"insert"}}`),
		[]byte(`null`), []byte(`[]`), []byte(`{"type":7}`), []byte(`{"headers":null,"type":"main.E1","key":"a"}`), []byte(`{"type":"main.E1","key":"a","value":"x","headers":{"operation":"update"}}`))
	errs, oks := 0, 0
	for i := 0; i < n; i++ {
		var data []byte
		switch rng.Intn(4) {
		case 0:
			data = make([]byte, rng.Intn(40))
			rng.Read(data)
		default:
			data = append([]byte{}, seeds[rng.Intn(len(seeds))]...)
			for k := rng.Intn(4); k > 0 && len(data) > 0; k-- {
				switch rng.Intn(3) {
				case 0:
					data[rng.Intn(len(data))] = byte(rng.Intn(256))
				case 1:
					p := rng.Intn(len(data))
					data = append(data[:p], data[p+1:]...)
				default:
					p := rng.Intn(len(data) + 1)
					data = append(data[:p], append([]byte{"{}[]\":,0a"[rng.Intn(9)]}, data[p:]...)...)
				}
			}
		}
		before := sc.dump()
		var err error
		func() {
			defer func() {
				if r := recover(); r != nil {
					err = fmt.Errorf("PANIC %v", r)
				}
			}()
			err = sc.mat.Apply(&eb.StoredEvent{Offset: eb.Offset(fmt.Sprintf("%020d", 900000+i)), Type: "x", Data: data})
		}()
		if err != nil && strings.HasPrefix(err.Error(), "PANIC") {
			return []string{fmt.Sprintf("!fuzz Apply panicked on %q: %v", data, err)}
		}
		if err != nil {
			errs++
			if after := sc.dump(); stripCbs(after) != stripCbs(before) {
				return []string{fmt.Sprintf("!fuzz failed Apply changed state on %q: %s -> %s", data, before, after)}
			}
		} else {
			oks++
		}
	}
	return []string{fmt.Sprintf("~fuzz n=%d errors=%d applied=%d", n, errs, oks), "fuzz ok"}
}

func stripCbs(s string) string {
	i := strings.Index(s, " cbs=")
	j := strings.Index(s, " | ")
	if i < 0 || j < 0 {
		return s
	}
	return s[:i] + s[j:]
}

func init() { domains["state"] = stateDomain }

package main

import (
	"bufio"
	"context"
	"database/sql"
	"encoding/json"
	"fmt"
	"os"
	"os/exec"
	"path/filepath"
	"strings"
	"sync"
	"syscall"
	"time"

	eb "github.com/jilio/ebu"
	ebsql "github.com/jilio/ebu/stores/sqlite"
)

// Domain "durable": the SQLite store under SIGKILL (C14). A child process (this binary, sub-command
// "killchild") appends and saves, printing an acknowledgement line after every call that returned;
// the parent kills it at a chosen instant, reopens the database and reports what it finds.

// zonedTime: the instant k seconds after the epoch, in a zone that depends on k (UTC, a zone whose abbreviation is a numeric
// offset with minutes, a zone with a seconds offset): what was acknowledged must be readable after reopening
func zonedTime(k int) time.Time {
	t := time.Unix(int64(k), 0)
	switch k % 3 {
	case 0:
		return t.UTC()
	case 1:
		return t.In(time.FixedZone("", 5*3600+45*60))
	}
	return t.In(time.FixedZone("LMT", -(4*3600 + 56*60 + 2)))
}

func killChildMain(args []string) {
	path, start, saveEvery := args[0], atoi(args[1]), atoi(args[2])
	st, err := ebsql.New(path)
	if err != nil {
		fmt.Println("E", err)
		os.Exit(1)
	}
	ctx := context.Background()
	for k := start; ; k++ {
		data, _ := json.Marshal(map[string]int{"id": k})
		off, err := st.Append(ctx, &eb.Event{Type: "t", Data: data, Timestamp: zonedTime(k)})
		if err != nil {
			fmt.Println("E", err)
			os.Exit(1)
		}
		os.Stdout.WriteString(fmt.Sprintf("A %d %s\n", k, off))
		if (k-start)%7 == 3 {
			// every now and then another handle on the same file is opened, used for a read and closed cleanly while
			// this one keeps appending (another component of the same program, or another process)
			if other, err := ebsql.New(path); err == nil {
				other.Read(ctx, eb.OffsetOldest, 1)
				other.Close()
			}
		}
		if saveEvery > 0 && k%saveEvery == 0 {
			if err := st.SaveOffset(ctx, "s", off); err != nil {
				fmt.Println("E", err)
				os.Exit(1)
			}
			os.Stdout.WriteString(fmt.Sprintf("S %s\n", off))
		}
	}
}

type durableCase struct {
	dir      string
	path     string
	acked    []int // records acknowledged so far (all processes)
	savedAck int
	next     int
	out      []string
}

func (dc *durableCase) readAll(opts ...ebsql.Option) (recs []int, poss []int, saved int, err error) {
	st, err := ebsql.New(dc.path, opts...)
	if err != nil {
		return nil, nil, 0, err
	}
	defer st.Close()
	evs, _, err := st.Read(context.Background(), eb.OffsetOldest, 0)
	if err != nil {
		return nil, nil, 0, err
	}
	for _, e := range evs {
		var d struct {
			ID int `json:"id"`
		}
		_ = json.Unmarshal(e.Data, &d)
		recs = append(recs, d.ID)
		poss = append(poss, atoi(string(e.Offset)))
	}
	off, err := st.LoadOffset(context.Background(), "s")
	if err != nil {
		return nil, nil, 0, err
	}
	return recs, poss, atoi(string(off)), nil
}

func durableDomain(lines []string) []string {
	dc := &durableCase{next: 1}
	dc.dir, _ = os.MkdirTemp("", "verifkill")
	defer os.RemoveAll(dc.dir)
	dc.path = filepath.Join(dc.dir, "events.db")
	for _, line := range lines {
		f := strings.Fields(line)
		switch f[0] {
		case "kill": // kill <acks before the kill> <extra delay in microseconds> <saveEvery>
			nacks, delay, saveEvery := atoi(f[1]), atoi(f[2]), atoi(f[3])
			cmd := exec.Command(os.Args[0], "killchild", dc.path, fmt.Sprint(dc.next), fmt.Sprint(saveEvery))
			stdout, _ := cmd.StdoutPipe()
			if err := cmd.Start(); err != nil {
				dc.out = append(dc.out, "!child "+err.Error())
				continue
			}
			sc := bufio.NewScanner(stdout)
			seen := 0
			killed := false
			linesCh := make(chan string, 4096)
			go func() {
				for sc.Scan() {
					linesCh <- sc.Text()
				}
				close(linesCh)
			}()
			timeout := time.After(20 * time.Second)
		loop:
			for {
				select {
				case l, ok := <-linesCh:
					if !ok {
						break loop
					}
					w := strings.Fields(l)
					switch w[0] {
					case "A":
						dc.acked = append(dc.acked, atoi(w[1]))
						dc.next = atoi(w[1]) + 1
					case "S":
						dc.savedAck = atoi(w[1])
					case "E":
						dc.out = append(dc.out, "!child-error "+l)
					}
					seen++
					if seen >= nacks && !killed {
						killed = true
						go func() {
							time.Sleep(time.Duration(delay) * time.Microsecond)
							cmd.Process.Signal(syscall.SIGKILL)
						}()
					}
				case <-timeout:
					cmd.Process.Signal(syscall.SIGKILL)
					dc.out = append(dc.out, "!child-timeout")
					break loop
				}
			}
			cmd.Wait()
			recs, poss, saved, err := dc.readAll()
			if err != nil {
				dc.out = append(dc.out, "!reopen-failed "+err.Error())
				continue
			}
			dc.out = append(dc.out, fmt.Sprintf("~recovered acked=%s recs=%s poss=%s inflight=%d savedack=%d saved=%d",
				showNatList(dc.acked), showNatList(recs), showNatList(poss), dc.next, dc.savedAck, saved))
			// whatever was recovered is now the truth: the in-flight event, if it landed, counts as appended
			dc.acked = recs
			if len(recs) > 0 && recs[len(recs)-1] >= dc.next {
				dc.next = recs[len(recs)-1] + 1
			}
			if saved > dc.savedAck {
				dc.savedAck = saved
			}
			dc.out = append(dc.out, "kill done")
		case "reopen": // open twice in a row: idempotent, contents identical
			r1, p1, s1, err1 := dc.readAll()
			r2, p2, s2, err2 := dc.readAll()
			if err1 != nil || err2 != nil {
				dc.out = append(dc.out, fmt.Sprintf("!reopen-failed %v %v", err1, err2))
				continue
			}
			same := fmt.Sprint(r1, p1, s1) == fmt.Sprint(r2, p2, s2) && fmt.Sprint(r1) == fmt.Sprint(dc.acked) && s1 == dc.savedAck
			// an existing database opened without the automatic migration is the same database
			r3, p3, s3, err3 := dc.readAll(ebsql.WithAutoMigrate(false))
			if err3 != nil || fmt.Sprint(r3, p3, s3) != fmt.Sprint(r1, p1, s1) {
				dc.out = append(dc.out, fmt.Sprintf("!reopen without auto-migration differs: %v %v", err3, r3))
				continue
			}
			dc.out = append(dc.out, "reopen same="+b01(same))
		case "append": // clean in-process appends followed by Close
			n := atoi(f[1])
			st, err := ebsql.New(dc.path)
			if err != nil {
				dc.out = append(dc.out, "!open-failed "+err.Error())
				continue
			}
			maxBefore := 0
			evs, _, _ := st.Read(context.Background(), eb.OffsetOldest, 0)
			for _, e := range evs {
				if p := atoi(string(e.Offset)); p > maxBefore {
					maxBefore = p
				}
			}
			larger := true
			for i := 0; i < n; i++ {
				data, _ := json.Marshal(map[string]int{"id": dc.next})
				off, err := st.Append(context.Background(), &eb.Event{Type: "t", Data: data, Timestamp: zonedTime(dc.next)})
				if err != nil {
					dc.out = append(dc.out, "!append-failed "+err.Error())
					break
				}
				if atoi(string(off)) <= maxBefore {
					larger = false
				}
				maxBefore = atoi(string(off))
				dc.acked = append(dc.acked, dc.next)
				dc.next++
			}
			if f[len(f)-1] == "save" && maxBefore > 0 {
				if err := st.SaveOffset(context.Background(), "s", eb.Offset(fmt.Sprint(maxBefore))); err == nil {
					dc.savedAck = maxBefore
				}
			}
			st.Close()
			dc.out = append(dc.out, "append larger="+b01(larger))
		case "concappend": // concappend <goroutines> <appends each>: one store handle, concurrent appenders, then close and reopen
			g, n := atoi(f[1]), atoi(f[2])
			st, err := ebsql.New(dc.path)
			if err != nil {
				dc.out = append(dc.out, "!open-failed "+err.Error())
				continue
			}
			var wg sync.WaitGroup
			var mu sync.Mutex
			ack := map[int]int{} // event id -> acknowledged position
			base := dc.next
			for i := 0; i < g; i++ {
				wg.Add(1)
				go func(i int) {
					defer wg.Done()
					for k := 0; k < n; k++ {
						id := base + i*n + k
						data, _ := json.Marshal(map[string]int{"id": id})
						off, err := st.Append(context.Background(), &eb.Event{Type: "t", Data: data, Timestamp: time.Unix(int64(id), 0)})
						if err == nil {
							mu.Lock()
							ack[id] = atoi(string(off))
							mu.Unlock()
						}
					}
				}(i)
			}
			wg.Wait()
			st.Close()
			dc.next = base + g*n
			recs, poss, _, err := dc.readAll()
			if err != nil {
				dc.out = append(dc.out, "!reopen-failed "+err.Error())
				continue
			}
			at := map[int]int{}
			for i, id := range recs {
				at[id] = poss[i]
			}
			verdict := "concappend ok"
			seenPos := map[int]int{}
			for id, pos := range ack {
				if other, dup := seenPos[pos]; dup {
					verdict = fmt.Sprintf("!concappend events %d and %d were both acknowledged at offset %d", other, id, pos)
					break
				}
				seenPos[pos] = id
				if p, ok := at[id]; !ok {
					verdict = fmt.Sprintf("!concappend event %d was acknowledged (offset %d) but is not in the reopened log", id, pos)
					break
				} else if p != pos {
					verdict = fmt.Sprintf("!concappend event %d was acknowledged at offset %d but is stored at %d", id, pos, p)
					break
				}
			}
			dc.acked = recs
			dc.out = append(dc.out, verdict)
		case "twohandles": // a second handle on the same file is opened and cleanly closed while the first is still in use
			a, err := ebsql.New(dc.path)
			if err != nil {
				dc.out = append(dc.out, "!open-failed "+err.Error())
				continue
			}
			appendOne := func(st *ebsql.SQLiteStore) bool {
				data, _ := json.Marshal(map[string]int{"id": dc.next})
				if _, err := st.Append(context.Background(), &eb.Event{Type: "t", Data: data, Timestamp: time.Unix(int64(dc.next), 0)}); err != nil {
					return false
				}
				dc.acked = append(dc.acked, dc.next)
				dc.next++
				return true
			}
			ok := appendOne(a) && appendOne(a)
			b, err := ebsql.New(dc.path)
			if err == nil {
				ok = appendOne(b) && ok
				b.Close()
			}
			ok = appendOne(a) && appendOne(a) && ok
			// a reader that has not drained its iterator when the store is closed
			for range a.ReadStream(context.Background(), eb.OffsetOldest) {
				break
			}
			a.Close()
			if !ok || err != nil {
				dc.out = append(dc.out, fmt.Sprintf("!twohandles an append or the second open failed: %v", err))
				continue
			}
			dc.out = append(dc.out, "twohandles ok")
		case "appendnil": // an event without payload is refused; whatever the answer, the log stays readable after reopening
			st, err := ebsql.New(dc.path)
			if err != nil {
				dc.out = append(dc.out, "!open-failed "+err.Error())
				continue
			}
			_, aerr := st.Append(context.Background(), &eb.Event{Type: "t", Data: nil, Timestamp: time.Unix(1, 0)})
			st.Close()
			if aerr == nil {
				dc.out = append(dc.out, "!appendnil an event without payload was acknowledged")
			} else {
				dc.out = append(dc.out, "appendnil refused")
			}
		case "saveback": // the saved offset is whatever was saved last, also when that is an earlier position
			st, err := ebsql.New(dc.path)
			if err != nil {
				dc.out = append(dc.out, "!open-failed "+err.Error())
				continue
			}
			var offs []eb.Offset
			for i := 0; i < 3; i++ {
				data, _ := json.Marshal(map[string]int{"id": dc.next})
				off, err := st.Append(context.Background(), &eb.Event{Type: "t", Data: data, Timestamp: zonedTime(dc.next)})
				if err != nil {
					break
				}
				dc.acked = append(dc.acked, dc.next)
				dc.next++
				offs = append(offs, off)
			}
			verdict := "saveback ok"
			if len(offs) == 3 {
				e1 := st.SaveOffset(context.Background(), "s", offs[2])
				e2 := st.SaveOffset(context.Background(), "s", offs[0])
				st.Close()
				_, _, saved, rerr := dc.readAll()
				switch {
				case e1 != nil || e2 != nil || rerr != nil:
					verdict = fmt.Sprintf("!saveback %v %v %v", e1, e2, rerr)
				case saved != atoi(string(offs[0])):
					verdict = fmt.Sprintf("!saveback SaveOffset(%s) then SaveOffset(%s) both returned nil; after reopening the saved offset is %d", offs[2], offs[0], saved)
				default:
					dc.savedAck = saved
				}
			} else {
				st.Close()
				verdict = "!saveback append failed"
			}
			dc.out = append(dc.out, verdict)
		case "saveretry": // a SaveOffset that fails (its context is already over) is retried with the same offset, then the store is reopened
			st, err := ebsql.New(dc.path)
			if err != nil {
				dc.out = append(dc.out, "!open-failed "+err.Error())
				continue
			}
			data, _ := json.Marshal(map[string]int{"id": dc.next})
			off, err := st.Append(context.Background(), &eb.Event{Type: "t", Data: data, Timestamp: time.Unix(int64(dc.next), 0)})
			if err != nil {
				st.Close()
				dc.out = append(dc.out, "!append-failed "+err.Error())
				continue
			}
			dc.acked = append(dc.acked, dc.next)
			dc.next++
			dead, cancel := context.WithCancel(context.Background())
			cancel()
			err1 := st.SaveOffset(dead, "s", off)
			err2 := st.SaveOffset(context.Background(), "s", off)
			st.Close()
			_, _, saved, rerr := dc.readAll()
			switch {
			case rerr != nil:
				dc.out = append(dc.out, "!reopen-failed "+rerr.Error())
			case err2 != nil:
				dc.out = append(dc.out, "!saveretry the retry failed: "+err2.Error())
			case saved != atoi(string(off)):
				dc.out = append(dc.out, fmt.Sprintf("!saveretry SaveOffset(%s) returned nil (first attempt: %v) but after reopening the saved offset is %d", off, err1, saved))
			default:
				dc.savedAck = saved
				dc.out = append(dc.out, "saveretry ok")
			}
		case "busyappend": // another connection holds the write lock for longer than the busy timeout
			other, err := sql.Open("sqlite", "file:"+dc.path)
			if err != nil {
				dc.out = append(dc.out, "!open-other "+err.Error())
				continue
			}
			st, err := ebsql.New(dc.path, ebsql.WithBusyTimeout(40*time.Millisecond))
			if err != nil {
				other.Close()
				dc.out = append(dc.out, "!open-failed "+err.Error())
				continue
			}
			conn, _ := other.Conn(context.Background())
			_, lerr := conn.ExecContext(context.Background(), "BEGIN IMMEDIATE")
			data, _ := json.Marshal(map[string]int{"id": dc.next})
			off, aerr := st.Append(context.Background(), &eb.Event{Type: "t", Data: data, Timestamp: time.Unix(int64(dc.next), 0)})
			if lerr == nil {
				conn.ExecContext(context.Background(), "ROLLBACK")
			}
			conn.Close()
			other.Close()
			st.Close()
			recs, _, _, _ := dc.readAll()
			present := len(recs) > 0 && recs[len(recs)-1] == dc.next
			switch {
			case aerr != nil && !present:
				dc.out = append(dc.out, "busyappend refused")
			case aerr == nil && present:
				dc.acked = append(dc.acked, dc.next)
				dc.next++
				dc.out = append(dc.out, "busyappend refused") // the lock was not effective (cannot happen with IMMEDIATE): treated as a normal append
			default:
				dc.out = append(dc.out, fmt.Sprintf("!busyappend Append returned err=%v offset=%q but the event is present=%v after reopening", aerr, off, present))
			}
		default:
			dc.out = append(dc.out, "bad-op "+line)
		}
	}
	return dc.out
}

func init() { domains["durable"] = durableDomain }

package main

import (
	"encoding/json"
	"context"
	"fmt"
	"strings"

	eb "github.com/jilio/ebu"
	"github.com/jilio/ebu/state"
	ebsql "github.com/jilio/ebu/stores/sqlite"
)

// Domain "names": every shape of event type as a real Go type, and the type name each API
// route actually uses (M8, C15).

type NPlain struct {
	A int `json:"a"`
}

type NVal struct {
	A int `json:"a"`
}

func (NVal) EventTypeName() string { return "nval.v1" }

type NPtr struct {
	A int `json:"a"`
}

func (*NPtr) EventTypeName() string { return "nptr.v1" }

// names computed from the event's fields
type NDyn struct {
	A int `json:"a"`
}

func (n NDyn) EventTypeName() string { return fmt.Sprintf("ndyn.v%d", n.A) }

type NDynP struct {
	A int `json:"a"`
}

func (n *NDynP) EventTypeName() string { return fmt.Sprintf("ndynp.v%d", n.A) }

type NTarget struct {
	A int `json:"a"`
}

type NSource struct {
	A int `json:"a"`
}

// NNum has a custom name that looks like a number (a store must keep it as text)
type NNum struct {
	A int `json:"a"`
}

func (NNum) EventTypeName() string { return "0042" }

// named NON-struct event types with a custom name
type NTick int64

func (NTick) EventTypeName() string { return "ntick.v1" }

type NBatch []int

func (NBatch) EventTypeName() string { return "nbatch.v1" }

type NMap map[string]int

func (NMap) EventTypeName() string { return "nmap.v1" }

type namesStore interface {
	eb.EventStore
	eb.SubscriptionStore
}

func newNamesStore(sqlite bool) (namesStore, func()) {
	if sqlite {
		s, err := ebsql.New(":memory:")
		if err != nil {
			panic(err)
		}
		return s, func() { s.Close() }
	}
	return eb.NewMemoryStore(), func() {}
}

// keepStore keeps the *Event it is handed (as a write-behind or batching store would) and looks at it again later
type keepStore struct {
	namesStore
	kept []*eb.Event
}

func (k *keepStore) Append(ctx context.Context, e *eb.Event) (eb.Offset, error) {
	k.kept = append(k.kept, e)
	return k.namesStore.Append(ctx, e)
}

func runShape[T any](k int, v T, others ...T) string { return runShapeOn(k, v, false, others...) }

func runShapeOn[T any](k int, v T, sqlite bool, others ...T) string {
	ctx := context.Background()
	inner, done := newNamesStore(sqlite)
	defer done()
	mem := &keepStore{namesStore: inner}
	bus1 := eb.New(eb.WithStore(mem))
	eb.Publish(bus1, v)
	evs, _, _ := mem.Read(ctx, eb.OffsetOldest, 0)
	stored := "?"
	if len(evs) == 1 {
		stored = evs[0].Type
	}
	// typed replay subscription on a new bus over the same store
	n := 0
	bus2 := eb.New(eb.WithStore(mem))
	if err := eb.SubscribeWithReplay(ctx, bus2, "id", func(e T) { n++ }); err != nil {
		return fmt.Sprintf("shape %d !subscribe %v", k, err)
	}
	// typed upcast with T as source
	bus3 := eb.New(eb.WithStore(mem))
	// a replay goes over the record BEFORE the upcaster for its type is registered (the registry must not remember
	// "nothing registered for this name")
	_ = bus3.ReplayWithUpcast(ctx, eb.OffsetOldest, func(e *eb.StoredEvent) error { return nil })
	if err := eb.RegisterUpcast(bus3, func(e T) NTarget { return NTarget{1} }); err != nil {
		return fmt.Sprintf("shape %d !registerfrom %v", k, err)
	}
	upfrom := false
	_ = bus3.ReplayWithUpcast(ctx, eb.OffsetOldest, func(e *eb.StoredEvent) error {
		upfrom = e.Type == eb.EventType(NTarget{})
		return nil
	})
	// the log after the upcasting replay went over it: same record, still matched by a typed subscription
	storedAfter := "?"
	if evs, _, _ := mem.Read(ctx, eb.OffsetOldest, 0); len(evs) == 1 {
		storedAfter = evs[0].Type
	}
	n2 := 0
	bus6 := eb.New(eb.WithStore(mem))
	// upcasters for unrelated names are registered on this bus: which stored events a typed subscription matches does not
	// depend on what else the registry knows
	_ = eb.RegisterUpcastFunc(bus6, "unrelated.v1", "unrelated.v2", func(d json.RawMessage) (json.RawMessage, string, error) { return d, "unrelated.v2", nil })
	if err := eb.SubscribeWithReplay(ctx, bus6, "id2", func(e T) { n2++ }); err != nil {
		return fmt.Sprintf("shape %d !subscribe2 %v", k, err)
	}
	// typed upcast with T as target
	mem2, done2 := newNamesStore(sqlite)
	defer done2()
	bus4 := eb.New(eb.WithStore(mem2))
	eb.Publish(bus4, NSource{3})
	bus5 := eb.New(eb.WithStore(mem2))
	if err := eb.RegisterUpcast(bus5, func(e NSource) T { return v }); err != nil {
		return fmt.Sprintf("shape %d !registerto %v", k, err)
	}
	upto := "?"
	_ = bus5.ReplayWithUpcast(ctx, eb.OffsetOldest, func(e *eb.StoredEvent) error {
		upto = e.Type
		return nil
	})
	// further values of the same Go type, persisted later in the same process: each is stored under the name EventType
	// reports for THAT value, and a typed subscription matches it
	second := true
	for _, o := range append([]T{v}, others...) {
		s3, done3 := newNamesStore(sqlite)
		eb.Publish(eb.New(eb.WithStore(s3)), o)
		evs3, _, _ := s3.Read(ctx, eb.OffsetOldest, 0)
		n3 := 0
		b3 := eb.New(eb.WithStore(s3))
		_ = eb.RegisterUpcastFunc(b3, "unrelated.v1", "unrelated.v2", func(d json.RawMessage) (json.RawMessage, string, error) { return d, "unrelated.v2", nil })
		err := eb.SubscribeWithReplay(ctx, b3, "id3", func(e T) { n3++ })
		if len(evs3) != 1 || evs3[0].Type != eb.EventType(o) || err != nil {
			second = false
		}
		// shapes whose typed routes cannot know a value-dependent name are the model's business (replayed=…); here only
		// the shapes that the first value was matched for
		if n == 1 && n3 != 1 {
			second = false
		}
		done3()
	}
	kept := "?"
	if len(mem.kept) == 1 {
		kept = mem.kept[0].Type // the name in the envelope the store was handed, looked at again at the very end
	}
	return fmt.Sprintf("shape %d stored=%s eventtype=%s replayed=%s upfrom=%s upto=%s storedafter=%s replayedafter=%s kept=%s second=%s", k, stored, eb.EventType(v), b01(n == 1), b01(upfrom), upto, storedAfter, b01(n2 == 1), kept, b01(second))
}

func namesDomain(lines []string) []string {
	var out []string
	for _, line := range lines {
		f := strings.Fields(line)
		if f[0] != "shape" || len(f) != 2 {
			out = append(out, "bad-op "+line)
			continue
		}
		k := atoi(f[1])
		switch k {
		case 0:
			out = append(out, runShape(k, NPlain{7}))
		case 1:
			out = append(out, runShape(k, &NPlain{7}))
		case 2:
			out = append(out, runShape(k, NVal{7}, NVal{8}))
		case 3:
			out = append(out, runShape(k, &NVal{7}))
		case 4:
			out = append(out, runShape(k, NPtr{7}))
		case 5:
			out = append(out, runShape(k, &NPtr{7}))
		case 6:
			out = append(out, runShape(k, state.ChangeMessage{Type: "t", Key: "k"}))
		case 7:
			out = append(out, runShape(k, &state.ChangeMessage{Type: "t", Key: "k"}))
		case 8:
			out = append(out, runShape(k, state.ControlMessage{}))
		case 9:
			out = append(out, runShape(k, &state.ControlMessage{}))
		case 10:
			out = append(out, runShape(k, NDyn{7}, NDyn{8}, NDyn{7}))
		case 11:
			out = append(out, runShape(k, &NDyn{7}, &NDyn{9}))
		case 12:
			out = append(out, runShape(k, NDynP{7}, NDynP{8}))
		case 13:
			out = append(out, runShape(k, &NDynP{7}, &NDynP{8}, &NDynP{7}))
		case 14:
			out = append(out, runShape(k, (*NPtr)(nil))) // a typed nil pointer is an event of type *NPtr too
		case 15:
			out = append(out, runShapeOn(k, NNum{7}, true)) // on the SQLite store
		case 16:
			out = append(out, runShapeOn(k, &NPlain{7}, true))
		case 17:
			out = append(out, runShape(k, NTick(7)))
		case 18:
			out = append(out, runShape(k, NBatch{7, 8}))
		case 19:
			out = append(out, runShape(k, NMap{"a": 7}))
		default:
			out = append(out, "bad-op "+line)
		}
	}
	return out
}

func init() { domains["names"] = namesDomain }

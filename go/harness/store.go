package main

import (
	"context"
	"encoding/json"
	"errors"
	"fmt"
	"iter"
	"net/http"
	"net/http/httptest"
	"os"
	"path/filepath"
	"reflect"
	"strings"
	"sync"
	"sync/atomic"
	"time"

	dss "github.com/ahimsalabs/durable-streams-go/durablestream"
	"github.com/ahimsalabs/durable-streams-go/durablestream/memorystorage"
	eb "github.com/jilio/ebu"
	ebds "github.com/jilio/ebu/stores/durablestream"
	ebsql "github.com/jilio/ebu/stores/sqlite"
)

// Domain "store": the three bundled stores behind one op language (M3), and
// EventBus.Replay over them (M4).

var typePool = []string{"order.created", "", "ünïcode/тип/类型", "main.T07", strings.Repeat("long", 40), "a b\tc", "$", "x\"y\\z", "state.ChangeMessage", "0042", "1.10", "1e3", "-0"}

var tsPool = []time.Time{
	time.Date(2024, 2, 29, 12, 30, 45, 123456789, time.UTC),
	time.Date(2001, 1, 1, 0, 0, 0, 0, time.FixedZone("X", 5*3600+1800)),
	time.Date(1999, 12, 31, 23, 59, 59, 999999999, time.FixedZone("", -7*3600)),
	time.Date(2038, 1, 19, 3, 14, 8, 1, time.FixedZone("CEST", 2*3600)),
	time.Date(9999, 12, 31, 23, 59, 59, 0, time.UTC),
	time.Date(1, 1, 1, 0, 0, 1, 0, time.UTC),
	time.Date(1970, 1, 1, 0, 0, 0, 500, time.FixedZone("neg", -11*3600-1800)),
	time.Date(1931, 6, 1, 8, 0, 0, 0, time.FixedZone("LMT", 19*60+32)),             // zone offsets with a seconds part
	time.Date(1883, 11, 18, 12, 0, 0, 7, time.FixedZone("LMT", -(4*3600+56*60+2))), // (local mean time zones of tzdata)
}

var strPool = []string{"plain", "", "ünï✓", "quote\"back\\slash", "new\nline", "<html>&amp;", strings.Repeat("z", 70)}

const dsMsgSize = 700

type wireEvt struct {
	Type      string          `json:"type"`
	Data      json.RawMessage `json:"data"`
	Timestamp string          `json:"timestamp,omitempty"`
}

func mkData(rec int, pad int) json.RawMessage {
	b, _ := json.Marshal(map[string]any{"id": rec, "s": strPool[rec%len(strPool)], "n": []any{rec, 1.5, nil, true}, "pad": strings.Repeat("p", pad)})
	return b
}

// mkEvent builds record number rec; for the durable-streams store the payload is padded so
// that every wire message has exactly dsMsgSize bytes (chunking is by bytes).
func mkEvent(rec int, padToWire bool) *eb.Event {
	ty := typePool[rec%len(typePool)]
	ts := tsPool[rec%len(tsPool)]
	pad := 0
	if padToWire {
		w, _ := json.Marshal(wireEvt{ty, mkData(rec, 0), ts.Format(time.RFC3339Nano)})
		pad = dsMsgSize - len(w)
		if pad < 0 {
			pad = 0
		}
	}
	return &eb.Event{Type: ty, Data: mkData(rec, pad), Timestamp: ts}
}

// pubRec is record number ID (>= pubBase) published through a bus on top of the store: its persisted type
// must be EventType's name for it, its data the JSON encoding of the value (same document as mkData).
const pubBase = 500000

type pubRec struct {
	ID  int    `json:"id"`
	S   string `json:"s"`
	N   []any  `json:"n"`
	Pad string `json:"pad"`
}

func (p pubRec) EventTypeName() string { return fmt.Sprintf("pub.kind%d", p.ID%3) }

func mkPub(rec int) pubRec {
	return pubRec{ID: rec, S: strPool[rec%len(strPool)], N: []any{rec, 1.5, nil, true}}
}

// identify maps a stored event back to its record number, checking type, data and instant.
func identify(e *eb.StoredEvent, padded bool) string {
	var d struct {
		ID  int    `json:"id"`
		Pad string `json:"pad"`
	}
	if err := json.Unmarshal(e.Data, &d); err != nil {
		return "?json"
	}
	want := mkEvent(d.ID, padded)
	if d.ID >= pubBase {
		p := mkPub(d.ID)
		want = &eb.Event{Type: eb.EventType(p), Data: mkData(d.ID, 0), Timestamp: e.Timestamp}
		if e.Timestamp.IsZero() || time.Since(e.Timestamp) > time.Hour || time.Since(e.Timestamp) < -time.Hour {
			return fmt.Sprintf("?ts%d", d.ID)
		}
	}
	if e.Type != want.Type {
		return fmt.Sprintf("?type%d", d.ID)
	}
	var a, b any
	if json.Unmarshal(e.Data, &a) != nil || json.Unmarshal(want.Data, &b) != nil || fmt.Sprint(a) != fmt.Sprint(b) {
		return fmt.Sprintf("?data%d", d.ID)
	}
	if !e.Timestamp.Equal(want.Timestamp) {
		return fmt.Sprintf("?ts%d", d.ID)
	}
	return fmt.Sprint(d.ID)
}

type storeInst struct {
	bus     *eb.EventBus // lazily: a bus persisting into st (op "pub")
	notify  int          // the record the persistence error handler publishes when it is called next (0 = none)
	pubSeen string
	perrs   int          // calls of the bus's persistence error handler
	flaky   *atomic.Bool // durable-streams: the gateway answers the next POST with 502 AFTER the server has stored it
	st      eb.EventStore
	sub     eb.SubscriptionStore
	padded  bool
	closers []func()
	appOffs []string
}

type storeCase struct {
	nfiles   int
	kind     string
	batch    int
	chunk    int
	file     bool
	obs      bool // stores are built with every construction option: logger, metrics hook, own HTTP client, timeout, context
	hook     *sqlHook
	insts    map[int]*storeInst
	cur      *storeInst
	lastEvs  []*eb.StoredEvent
	lastNext string
	tmp      string
}

// sqlHook is a MetricsHook and Logger for the SQLite store: it counts, and remembers whether an error was reported
type sqlHook struct {
	mu                                   sync.Mutex
	appends, appendErrs, reads, readErrs int
	saves, saveErrs, loads, loadErrs     int
	logs                                 int
}

func (h *sqlHook) OnAppend(d time.Duration, err error) {
	h.mu.Lock()
	defer h.mu.Unlock()
	h.appends++
	if err != nil {
		h.appendErrs++
	}
}
func (h *sqlHook) OnRead(d time.Duration, n int, err error) {
	h.mu.Lock()
	defer h.mu.Unlock()
	h.reads++
	if err != nil {
		h.readErrs++
	}
}
func (h *sqlHook) OnSaveOffset(d time.Duration, err error) {
	h.mu.Lock()
	defer h.mu.Unlock()
	h.saves++
	if err != nil {
		h.saveErrs++
	}
}
func (h *sqlHook) OnLoadOffset(d time.Duration, err error) {
	h.mu.Lock()
	defer h.mu.Unlock()
	h.loads++
	if err != nil {
		h.loadErrs++
	}
}
func (h *sqlHook) Debug(msg string, args ...any) { h.mu.Lock(); h.logs++; h.mu.Unlock() }
func (h *sqlHook) Info(msg string, args ...any)  { h.mu.Lock(); h.logs++; h.mu.Unlock() }
func (h *sqlHook) Error(msg string, args ...any) { h.mu.Lock(); h.logs++; h.mu.Unlock() }
func (h *sqlHook) Printf(format string, v ...any) { h.mu.Lock(); h.logs++; h.mu.Unlock() }

func (sc *storeCase) newInst() (*storeInst, error) {
	switch sc.kind {
	case "mem":
		m := eb.NewMemoryStore()
		return &storeInst{st: m, sub: m}, nil
	case "sqlite":
		path := ":memory:"
		if sc.file {
			if sc.tmp == "" {
				sc.tmp, _ = os.MkdirTemp("", "verifsql")
			}
			sc.nfiles++ // never reuse a file name, also after an instance was dropped
			path = filepath.Join(sc.tmp, fmt.Sprintf("db%d.sqlite", sc.nfiles))
		}
		var opts []ebsql.Option
		if sc.batch > 0 {
			opts = append(opts, ebsql.WithStreamBatchSize(sc.batch))
		}
		if sc.obs {
			if sc.hook == nil {
				sc.hook = &sqlHook{}
			}
			opts = append(opts, ebsql.WithLogger(sc.hook), ebsql.WithMetricsHook(sc.hook), ebsql.WithAutoMigrate(true), ebsql.WithBusyTimeout(3*time.Second))
		}
		s, err := ebsql.New(path, opts...)
		if err != nil {
			return nil, err
		}
		return &storeInst{st: s, sub: s, closers: []func(){func() { s.Close() }}}, nil
	case "ds":
		storage := memorystorage.New()
		cfg := &dss.HandlerConfig{}
		if sc.chunk > 0 {
			cfg.ChunkSize = sc.chunk * dsMsgSize
		}
		h := dss.NewHandler(storage, cfg)
		mux := http.NewServeMux()
		mux.Handle("/v1/stream/", http.StripPrefix("/v1/stream/", h))
		flaky := &atomic.Bool{}
		srv := httptest.NewServer(http.HandlerFunc(func(w http.ResponseWriter, r *http.Request) {
			if r.Method == http.MethodPost && flaky.CompareAndSwap(true, false) {
				mux.ServeHTTP(httptest.NewRecorder(), r)            // the server stores the event …
				http.Error(w, "bad gateway", http.StatusBadGateway) // … but the answer is lost on the way back
				return
			}
			mux.ServeHTTP(w, r)
		}))
		var s *ebds.Store
		var err error
		if sc.obs {
			if sc.hook == nil {
				sc.hook = &sqlHook{}
			}
			cctx, cancel := context.WithCancel(context.Background())
			s, err = ebds.NewWithContext(cctx, srv.URL+"/v1/stream", "s", ebds.WithHTTPClient(&http.Client{Transport: &http.Transport{}}),
				ebds.WithTimeout(20*time.Second), ebds.WithContentType("application/json"), ebds.WithLogger(sc.hook))
			cancel() // the construction context is over: it must not be the context of any later call
		} else {
			s, err = ebds.New(srv.URL+"/v1/stream", "s")
		}
		if err != nil {
			srv.Close()
			return nil, err
		}
		return &storeInst{st: s, padded: true, closers: []func(){srv.Close}, flaky: flaky}, nil
	}
	return nil, errors.New("unknown kind")
}

func (sc *storeCase) resolveOff(tok string) (eb.Offset, bool) {
	switch {
	case tok == "-":
		return eb.OffsetOldest, true
	case tok == "@next":
		return eb.Offset(sc.lastNext), true
	case strings.HasPrefix(tok, "@e"):
		i := atoi(tok[2:])
		if i < len(sc.lastEvs) {
			return sc.lastEvs[i].Offset, true
		}
		return "", false
	case strings.HasPrefix(tok, "@a"):
		i := atoi(tok[2:])
		if i < len(sc.cur.appOffs) {
			return eb.Offset(sc.cur.appOffs[i]), true
		}
		return "", false
	case strings.HasPrefix(tok, "="):
		return eb.Offset(tok[1:]), true
	}
	return "", false
}

func showEvs(evs []*eb.StoredEvent, padded bool) (string, string) {
	if len(evs) == 0 {
		return "-", "-"
	}
	rs := make([]string, len(evs))
	os_ := make([]string, len(evs))
	for i, e := range evs {
		rs[i] = identify(e, padded)
		os_[i] = string(e.Offset)
	}
	return strings.Join(rs, ","), strings.Join(os_, ";")
}

// pagedOnly hides ReadStream (and the subscription store) of a store and can fail its j-th Read.
type pagedOnly struct {
	inner    eb.EventStore
	reads    int
	readFail int
	appends  *int
}

func (p *pagedOnly) Append(ctx context.Context, e *eb.Event) (eb.Offset, error) {
	*p.appends++
	return p.inner.Append(ctx, e)
}
func (p *pagedOnly) Read(ctx context.Context, from eb.Offset, limit int) ([]*eb.StoredEvent, eb.Offset, error) {
	n := p.reads
	p.reads++
	if p.readFail >= 0 && n == p.readFail {
		return nil, from, errors.New("injected read failure")
	}
	return p.inner.Read(ctx, from, limit)
}

// countingStreamer keeps ReadStream visible and counts appends.
type countingStreamer struct {
	eb.EventStore
	str     eb.EventStoreStreamer
	appends *int
}

func (c *countingStreamer) Append(ctx context.Context, e *eb.Event) (eb.Offset, error) {
	*c.appends++
	return c.EventStore.Append(ctx, e)
}
func (c *countingStreamer) ReadStream(ctx context.Context, from eb.Offset) iter.Seq2[*eb.StoredEvent, error] {
	return c.str.ReadStream(ctx, from)
}

func optInt(tok string) int {
	if tok == "-" {
		return -1
	}
	return atoi(tok)
}

func storeDomain(lines []string) []string {
	sc := &storeCase{insts: map[int]*storeInst{}}
	var out []string
	defer func() {
		for _, in := range sc.insts {
			for _, c := range in.closers {
				c()
			}
		}
		if sc.tmp != "" {
			os.RemoveAll(sc.tmp)
		}
	}()
	ctx := context.Background()
	for _, line := range lines {
		f := strings.Fields(line)
		if f[0] == "kind" {
			sc.kind = f[1]
			for _, kv := range f[2:] {
				switch {
				case strings.HasPrefix(kv, "batch="):
					sc.batch = atoi(kv[6:])
				case strings.HasPrefix(kv, "chunk="):
					sc.chunk = atoi(kv[6:])
				case kv == "file":
					sc.file = true
				case kv == "obs":
					sc.obs = true
				}
			}
			in, err := sc.newInst()
			if err != nil {
				return append(out, "!newstore "+err.Error())
			}
			sc.insts[0] = in
			sc.cur = in
			continue
		}
		if sc.cur == nil {
			return append(out, "!no-kind")
		}
		switch f[0] {
		case "use":
			n := atoi(f[1])
			if _, ok := sc.insts[n]; !ok {
				in, err := sc.newInst()
				if err != nil {
					return append(out, "!newstore "+err.Error())
				}
				sc.insts[n] = in
			}
			sc.cur = sc.insts[n]
			sc.lastEvs, sc.lastNext = nil, ""
			out = append(out, "use")
		case "append":
			// like persistEvent with a persistence timeout: every append gets its own context, which ends
			// as soon as the call has returned (a store must not keep using it)
			actx, acancel := context.WithCancel(ctx)
			off, err := sc.cur.st.Append(actx, mkEvent(atoi(f[1]), sc.cur.padded))
			acancel()
			if err != nil {
				out = append(out, "append err")
			} else {
				sc.cur.appOffs = append(sc.cur.appOffs, string(off))
				out = append(out, "append "+string(off))
			}
		case "drop":
			// close an instance and forget it; a later `use` of that number creates a new store
			n := atoi(f[1])
			if in, ok := sc.insts[n]; ok && in != sc.cur {
				for _, c := range in.closers {
					c()
				}
				delete(sc.insts, n)
			}
			out = append(out, "drop")
		case "pub", "replaypub", "pubflaky", "pubhookpanic", "pubdead", "pubdeadnotify":
			// publish through a bus built on the store (options in either order, persistence timeout set):
			// the handler looks the log up while it runs
			in := sc.cur
			rec := atoi(f[1])
			if in.bus == nil {
				opts := []eb.Option{eb.WithStore(in.st), eb.WithPersistenceTimeout(2 * time.Second),
					eb.WithPersistenceErrorHandler(func(any, reflect.Type, error) {
						in.perrs++
						if in.notify > 0 {
							// the error handler re-enters the bus: it publishes the next record (callbacks run with no bus lock held)
							r := in.notify
							in.notify = 0
							eb.Publish(in.bus, mkPub(r))
						}
					}),
					eb.WithPanicHandler(func(any, reflect.Type, any) {}),
					// a validating before-publish hook that panics for some events (record numbers ending in 999)
					eb.WithBeforePublish(func(t reflect.Type, e any) {
						if p, ok := e.(pubRec); ok && p.ID%1000 == 999 {
							panic("validation hook rejects the event")
						}
					})}
				if rec%2 == 1 {
					opts[0], opts[1] = opts[1], opts[0]
				}
				in.bus = eb.New(opts...)
				eb.Subscribe(in.bus, func(p pubRec) {
					evs, _, err := in.st.Read(context.Background(), eb.OffsetOldest, 0)
					if err != nil || len(evs) == 0 {
						in.pubSeen = fmt.Sprintf("n=%d last=- err=%v", len(evs), err != nil)
						return
					}
					in.pubSeen = fmt.Sprintf("n=%d last=%s", len(evs), identify(evs[len(evs)-1], in.padded))
				})
			}
			in.pubSeen = "handler-not-run"
			if f[0] == "replaypub" {
				// the same publish, made from inside a Replay callback while the store is being read
				called := false
				in.bus.Replay(ctx, eb.OffsetOldest, func(*eb.StoredEvent) error {
					called = true
					eb.Publish(in.bus, mkPub(rec))
					return errors.New("stop")
				})
				if !called {
					out = append(out, "replaypub none")
				} else {
					out = append(out, "replaypub "+in.pubSeen)
				}
				break
			}
			if f[0] == "pubhookpanic" {
				// the before-publish hook panics: whatever becomes of the publish, no handler may run without a record
				func() {
					defer func() { recover() }()
					eb.Publish(in.bus, mkPub(rec))
				}()
				evs, _, _ := in.st.Read(context.Background(), eb.OffsetOldest, 0)
				recorded := len(evs) > 0 && identify(evs[len(evs)-1], in.padded) == fmt.Sprint(rec)
				switch {
				case in.pubSeen == "handler-not-run" && !recorded:
					out = append(out, "pubhookpanic aborted")
				case in.pubSeen != "handler-not-run" && !recorded:
					out = append(out, "!pubhookpanic the handlers ran although the event was never recorded")
				default:
					out = append(out, fmt.Sprintf("!pubhookpanic recorded=%v handler=%s", recorded, in.pubSeen))
				}
				break
			}
			if f[0] == "pubdeadnotify" {
				// like pubdead, but the persistence error handler publishes the next record on the same bus
				if sc.kind == "ds" {
					out = append(out, "pubdeadnotify skip")
					break
				}
				before := in.perrs
				in.notify = rec + 1
				dctx, dcancel := context.WithCancel(context.Background())
				dcancel()
				done := make(chan struct{})
				go func() { eb.PublishContext(in.bus, dctx, mkPub(rec)); close(done) }()
				select {
				case <-done:
				case <-time.After(12 * time.Second):
					out = append(out, "!pubdeadnotify a persistence error handler that publishes blocks the publish for ever")
					return out
				}
				in.notify = 0
				evs, _, _ := in.st.Read(context.Background(), eb.OffsetOldest, 0)
				out = append(out, fmt.Sprintf("pubdeadnotify n=%d perr=%d seen=%s", len(evs), in.perrs-before, strings.ReplaceAll(in.pubSeen, " ", ",")))
				break
			}
			if f[0] == "pubdead" {
				// a publish whose context is already over: no handler runs; the store may refuse the record (then the failure
				// is reported once) – and the publishes after it are persisted normally
				if sc.kind == "ds" {
					out = append(out, "pubdead skip")
					break
				}
				before := in.perrs
				dctx, dcancel := context.WithCancel(context.Background())
				dcancel()
				eb.PublishContext(in.bus, dctx, mkPub(rec))
				evs, _, _ := in.st.Read(context.Background(), eb.OffsetOldest, 0)
				out = append(out, fmt.Sprintf("pubdead n=%d perr=%d handler=%s", len(evs), in.perrs-before, b01(in.pubSeen != "handler-not-run")))
				break
			}
			if f[0] == "pubflaky" {
				// the store accepts the event but the acknowledgement is lost: one failure report, no second attempt
				if in.flaky == nil {
					out = append(out, "pubflaky unsupported")
					break
				}
				before := in.perrs
				in.flaky.Store(true)
				eb.Publish(in.bus, mkPub(rec))
				in.flaky.Store(false)
				out = append(out, fmt.Sprintf("pubflaky %s perr=%d", in.pubSeen, in.perrs-before))
				break
			}
			eb.Publish(in.bus, mkPub(rec))
			out = append(out, "pub "+in.pubSeen)
		case "read":
			from, ok := sc.resolveOff(f[1])
			if !ok {
				out = append(out, "read skip")
				continue
			}
			limit := atoi(strings.TrimPrefix(f[2], "-"))
			if strings.HasPrefix(f[2], "-") {
				limit = -limit
			}
			octx, ocancel := context.WithCancel(ctx) // every operation gets its own context, ended on return
			evs, next, err := sc.cur.st.Read(octx, from, limit)
			ocancel()
			if err != nil {
				out = append(out, "read err")
				continue
			}
			sc.lastEvs, sc.lastNext = evs, string(next)
			// the caller owns the page it was handed: appending to it must not reach into the store's own log (a page that
			// is a window of the store's slice shares its spare capacity with the events behind it)
			_ = append(evs, &eb.StoredEvent{Offset: "junk", Type: "junk", Data: json.RawMessage(`{"id":-1}`)})
			rs, os_ := showEvs(evs, sc.cur.padded)
			out = append(out, fmt.Sprintf("read ok recs=%s offs=%s next=%s", rs, os_, next))
		case "save":
			if sc.cur.sub == nil {
				out = append(out, "save unsupported")
				continue
			}
			off, ok := sc.resolveOff(f[2])
			if !ok {
				out = append(out, "save skip")
				continue
			}
			octx, ocancel := context.WithCancel(ctx)
			err := sc.cur.sub.SaveOffset(octx, f[1], off)
			ocancel()
			if err != nil {
				out = append(out, "save err")
			} else {
				out = append(out, "save ok")
			}
		case "load":
			if sc.cur.sub == nil {
				out = append(out, "load unsupported")
				continue
			}
			octx, ocancel := context.WithCancel(ctx)
			off, err := sc.cur.sub.LoadOffset(octx, f[1])
			ocancel()
			if err != nil {
				out = append(out, "load err")
			} else {
				out = append(out, "load "+string(off))
			}
		case "streamtwice":
			// range twice over ONE iterator value obtained from ReadStream: both passes start at the requested offset
			str, isStr := sc.cur.st.(eb.EventStoreStreamer)
			from, ok := sc.resolveOff(f[1])
			if !isStr || !ok {
				out = append(out, "streamtwice skip")
				continue
			}
			seq := str.ReadStream(ctx, from)
			var p1, p2 []*eb.StoredEvent
			for e, err := range seq {
				if err != nil {
					break
				}
				p1 = append(p1, e)
			}
			for e, err := range seq {
				if err != nil {
					break
				}
				p2 = append(p2, e)
			}
			r1, _ := showEvs(p1, sc.cur.padded)
			r2, _ := showEvs(p2, sc.cur.padded)
			same := r1 == r2
			out = append(out, fmt.Sprintf("streamtwice n=%d same=%s", len(p1), b01(same)))
		case "appenddead":
			if sc.kind == "ds" {
				out = append(out, "appenddead skip")
				continue
			}
			// an append whose context is already over: it may be refused (a store that honours contexts), and whatever it
			// answers the store works normally afterwards
			dctx, dcancel := context.WithCancel(ctx)
			dcancel()
			off, err := sc.cur.st.Append(dctx, mkEvent(atoi(f[1]), sc.cur.padded))
			if err != nil {
				out = append(out, "appenddead err")
			} else {
				sc.cur.appOffs = append(sc.cur.appOffs, string(off))
				out = append(out, "appenddead "+string(off))
			}
		case "appendnil":
			// an event without a payload is not a JSON document: the SQLite store refuses it and the log stays readable
			if sc.kind != "sqlite" {
				out = append(out, "appendnil skip")
				continue
			}
			_, err := sc.cur.st.Append(ctx, &eb.Event{Type: "nil.payload", Data: nil, Timestamp: tsPool[0]})
			if err != nil {
				out = append(out, "appendnil err")
			} else {
				out = append(out, "appendnil accepted")
			}
		case "busreplay":
			// Replay on the instance's own publishing bus (whose idea of "the last offset" is its own last append)
			from, ok := sc.resolveOff(f[1])
			if !ok || sc.cur.bus == nil {
				out = append(out, "busreplay skip")
				continue
			}
			var got []*eb.StoredEvent
			err := sc.cur.bus.Replay(ctx, from, func(e *eb.StoredEvent) error { got = append(got, e); return nil })
			rs, _ := showEvs(got, sc.cur.padded)
			out = append(out, fmt.Sprintf("busreplay end=%s recs=%s", map[bool]string{true: "nil", false: "err"}[err == nil], rs))
		case "nestedreplay":
			// a second replay of the same store started from the callback of the first one
			bus := eb.New(eb.WithStore(sc.cur.st))
			var outer, inner []*eb.StoredEvent
			nested := false
			err := bus.Replay(ctx, eb.OffsetOldest, func(e *eb.StoredEvent) error {
				outer = append(outer, e)
				if !nested {
					nested = true
					// the inner replay starts after the event the outer one is delivering right now
					if ierr := bus.Replay(ctx, e.Offset, func(e2 *eb.StoredEvent) error { inner = append(inner, e2); return nil }); ierr != nil {
						return ierr
					}
				}
				return nil
			})
			ro, _ := showEvs(outer, sc.cur.padded)
			ri, _ := showEvs(inner, sc.cur.padded)
			out = append(out, fmt.Sprintf("nestedreplay end=%s outer=%s inner=%s", map[bool]string{true: "nil", false: "err"}[err == nil], ro, ri))
		case "replay":
			// replay <from> <batchsize> <paged> <cbfail|-> <cancel|-> <readfail|->
			from, ok := sc.resolveOff(f[1])
			if !ok {
				out = append(out, "replay skip")
				continue
			}
			bs := atoi(strings.TrimPrefix(f[2], "-"))
			if strings.HasPrefix(f[2], "-") {
				bs = -bs
			}
			paged := f[3] == "1"
			cbFail, cancelAt, readFail := optInt(f[4]), optInt(f[5]), optInt(f[6])
			appends := 0
			var st eb.EventStore
			if str, isStr := sc.cur.st.(eb.EventStoreStreamer); isStr && !paged {
				cst := &countingStreamer{sc.cur.st, str, &appends}
				var _ eb.EventStoreStreamer = cst
				st = cst
			} else {
				st = &pagedOnly{inner: sc.cur.st, readFail: readFail, appends: &appends}
			}
			handlerCalls := 0
			// the store option is given twice (a default first, the real one later): the last one is the bus's store in
			// every respect, also for the choice between streaming and paged replay
			bus := eb.New(eb.WithStore(eb.NewMemoryStore()), eb.WithStore(st), eb.WithReplayBatchSize(bs))
			eb.Subscribe(bus, func(e *eb.StoredEvent) { handlerCalls++ })
			eb.Subscribe(bus, func(e eb.StoredEvent) { handlerCalls++ })
			rctx, cancel := context.WithCancel(ctx)
			var got []*eb.StoredEvent
			done := make(chan error, 1)
			go func() {
				done <- bus.Replay(rctx, from, func(e *eb.StoredEvent) error {
					k := len(got)
					got = append(got, e)
					if k == cancelAt {
						cancel()
						// give database/sql's watcher goroutine time to notice, so that the
						// cancellation lands inside the current batch rather than after it
						time.Sleep(2 * time.Millisecond)
					}
					if k == cbFail {
						if k%2 == 1 {
							// a failure of the callback's own making that happens to be a context error (a timeout of a
							// downstream call, not of the replay's context)
							return fmt.Errorf("downstream call: %w", context.DeadlineExceeded)
						}
						return errors.New("callback failure")
					}
					return nil
				})
			}()
			var err error
			select {
			case err = <-done:
			case <-time.After(10 * time.Second):
				cancel()
				out = append(out, "!HANG replay")
				return out
			}
			cancel()
			rs, _ := showEvs(got, sc.cur.padded)
			end := "nil"
			if err != nil {
				end = "err"
			}
			out = append(out, fmt.Sprintf("replay end=%s recs=%s appends=%d handlers=%d", end, rs, appends, handlerCalls))
		case "raceappend":
			// concurrent appenders on one store: afterwards the log must hold every ACKNOWLEDGED event once, at the
			// offset that was acknowledged, with offsets strictly increasing in log order (compared as the store
			// documents: numerically for sqlite). An Append may refuse (SQLITE_BUSY on a file database under
			// contention): a refused event need not be there; the number of refusals is reported as information.
			g, n := atoi(f[1]), atoi(f[2])
			var wg sync.WaitGroup
			var mu sync.Mutex
			errs := 0
			acked := map[int]string{}
			// in bursts of three appends per goroutine; after every burst a reader that resumes from the offset it was
			// given last must be handed exactly the events acknowledged in that burst
			resume, early := eb.OffsetOldest, ""
			if pre, next, err := sc.cur.st.Read(ctx, eb.OffsetOldest, 0); err == nil && len(pre) > 0 {
				resume = next
			}
			for base := 0; base < n; base += 3 {
				ackedBurst := 0
				for i := 0; i < g; i++ {
					wg.Add(1)
					go func(i int) {
						defer wg.Done()
						for k := base; k < base+3 && k < n; k++ {
							rec := 100000 + i*1000 + k
							off, err := sc.cur.st.Append(ctx, mkEvent(rec, sc.cur.padded))
							mu.Lock()
							if err != nil {
								errs++
							} else {
								sc.cur.appOffs = append(sc.cur.appOffs, string(off))
								acked[rec] = string(off)
								ackedBurst++
							}
							mu.Unlock()
						}
					}(i)
				}
				wg.Wait()
				if sc.kind != "ds" && early == "" {
					page, next, err := sc.cur.st.Read(ctx, resume, 0)
					if err == nil && len(page) < ackedBurst {
						early = fmt.Sprintf("!raceappend %d appends were acknowledged since offset %q, Read(%q, 0) returns %d events", ackedBurst, resume, resume, len(page))
					}
					if err == nil && len(page) > 0 {
						resume = next
					}
					// … and resuming from any event of the burst but the newest must yield what follows it
					for k := 0; err == nil && k+1 < len(page) && early == ""; k++ {
						if k < len(page)-4 {
							continue // the last few are the interesting ones (appends that finished out of order)
						}
						after, _, rerr := sc.cur.st.Read(ctx, page[k].Offset, 0)
						if rerr == nil && len(after) != len(page)-1-k {
							early = fmt.Sprintf("!raceappend Read(%q, 0) returns %d events, %d were appended after that offset", page[k].Offset, len(after), len(page)-1-k)
						}
					}
				}
			}
			if early != "" {
				out = append(out, early)
				continue
			}
			if errs > 0 {
				out = append(out, fmt.Sprintf("~raceappend refused=%d of %d", errs, g*n))
			}
			byOff := map[string]int{}
			dup := ""
			for rec, off := range acked {
				if other, ok := byOff[off]; ok {
					dup = fmt.Sprintf("!raceappend events %d and %d were both acknowledged with offset %q", other, rec, off)
				}
				byOff[off] = rec
			}
			if dup != "" {
				out = append(out, dup)
				continue
			}
			if sc.kind == "ds" {
				out = append(out, "raceappend ok") // read-back over chunks is the known finding's territory
				continue
			}
			evs, _, err := sc.cur.st.Read(ctx, eb.OffsetOldest, 0)
			verdict := "raceappend ok"
			if err != nil {
				verdict = fmt.Sprintf("!raceappend read=%v", err)
			} else {
				seen := map[string]bool{}
				at := map[string]string{}
				prev := ""
				for _, e := range evs {
					o := string(e.Offset)
					less := prev < o
					if sc.kind == "sqlite" {
						less = atoi(prev) < atoi(o)
					}
					if seen[o] || (prev != "" && !less) {
						verdict = fmt.Sprintf("!raceappend log not in strictly increasing offset order: %q then %q", prev, o)
						break
					}
					seen[o] = true
					prev = o
					at[identify(e, sc.cur.padded)] = o
				}
				if verdict == "raceappend ok" {
					// resume from returned next offsets with a small limit: the chain must reach the end of the log
					n, from := 0, eb.OffsetOldest
					for i := 0; i < len(evs)+3; i++ {
						page, next, err := sc.cur.st.Read(ctx, from, 7)
						if err != nil || len(page) == 0 {
							break
						}
						n += len(page)
						from = next
					}
					if n != len(evs) {
						verdict = fmt.Sprintf("!raceappend the log holds %d events but a chain of Read(next, 7) calls stops after %d", len(evs), n)
					}
				}
				for rec, off := range acked {
					if got, ok := at[fmt.Sprint(rec)]; !ok {
						verdict = fmt.Sprintf("!raceappend event %d was acknowledged at offset %q but is not in the log", rec, off)
						break
					} else if got != off {
						verdict = fmt.Sprintf("!raceappend event %d was acknowledged at offset %q but is stored at %q", rec, off, got)
						break
					}
				}
			}
			out = append(out, verdict)
		default:
			out = append(out, "bad-op "+line)
		}
	}
	return out
}

func init() { domains["store"] = storeDomain }

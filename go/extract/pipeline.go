package main

// Control-flow skeletons ("flows") of the functions the bus models transcribe: PublishContext,
// callHandlerWithContext, persistEvent, Replay, SubscribeWithReplay, Shutdown and upcastRegistry.apply.
// A flow is the list of the function's notable statements in SOURCE ORDER, with bracket tokens for the
// constructs that nest (if / else / range / for / select cases / go func / deferred func literals / switch cases):
//
//   call:<callee>            a call (callee rendered by exprString; verifYield carries its point name,
//                            callHandlerWithContext its last argument)
//   set:<lhs>                an assignment or definition of <lhs>
//   if:<cond>{ … }           else{ … }
//   range:<expr>{ … }        for{ … }
//   select{ case:<comm>{ … } default{ … } }
//   switch{ case{ … } … }
//   go{ … }                  defer:<callee>   defer{ … }
//   continue  break  return
//
// The Lean side (Ebu/Spec/Flow.lean) states ordering / nesting obligations over these lists; they are decided by the
// kernel on every run, so a reordering of the pipeline (context check after the once claim, the in-flight count taken
// inside the goroutine, the hook after the snapshot, …) breaks an obligation even when no generated input exposes it.

import (
	"bytes"
	"fmt"
	"go/ast"
	"go/parser"
	"go/printer"
	"go/token"
	"os"
	"path/filepath"
	"strconv"
	"strings"
)

type flowTok struct{ toks []string }

func (f *flowTok) add(t string) { f.toks = append(f.toks, t) }

func srcOf(fset *token.FileSet, n ast.Node) string {
	var b bytes.Buffer
	_ = printer.Fprint(&b, fset, n)
	s := strings.Join(strings.Fields(b.String()), " ")
	if len(s) > 90 {
		s = s[:90]
	}
	return s
}

// calls emits call tokens for every call inside an expression, innermost arguments first (evaluation order)
func (f *flowTok) calls(fset *token.FileSet, e ast.Node) {
	if e == nil {
		return
	}
	ast.Inspect(e, func(n ast.Node) bool {
		switch x := n.(type) {
		case *ast.FuncLit:
			return false // a closure that is only created here
		case *ast.CallExpr:
			for _, a := range x.Args {
				f.calls(fset, a)
			}
			if sel, ok := x.Fun.(*ast.SelectorExpr); ok {
				f.calls(fset, sel.X)
			}
			name := exprString(x.Fun)
			switch name {
			case "verifYield":
				if len(x.Args) > 0 {
					if bl, ok := x.Args[0].(*ast.BasicLit); ok {
						s, _ := strconv.Unquote(bl.Value)
						name += ":" + s
					}
				}
			case "callHandlerWithContext":
				if len(x.Args) > 0 {
					name += ":" + exprString(x.Args[len(x.Args)-1])
				}
			}
			f.add("call:" + name)
			return false
		}
		return true
	})
}

func (f *flowTok) block(fset *token.FileSet, l []ast.Stmt) {
	for _, s := range l {
		f.stmt(fset, s)
	}
}

func (f *flowTok) stmt(fset *token.FileSet, s ast.Stmt) {
	switch x := s.(type) {
	case *ast.ExprStmt:
		f.calls(fset, x.X)
	case *ast.AssignStmt:
		for _, r := range x.Rhs {
			f.calls(fset, r)
		}
		for _, l := range x.Lhs {
			if id, ok := l.(*ast.Ident); ok && id.Name == "_" {
				continue
			}
			f.add("set:" + exprString(l))
		}
	case *ast.IncDecStmt:
		f.add("set:" + exprString(x.X))
	case *ast.DeclStmt:
		if gd, ok := x.Decl.(*ast.GenDecl); ok {
			for _, sp := range gd.Specs {
				if vs, ok := sp.(*ast.ValueSpec); ok {
					for _, v := range vs.Values {
						f.calls(fset, v)
					}
				}
			}
		}
	case *ast.IfStmt:
		if x.Init != nil {
			f.stmt(fset, x.Init)
		}
		f.calls(fset, x.Cond)
		f.add("if:" + srcOf(fset, x.Cond) + "{")
		f.block(fset, x.Body.List)
		f.add("}")
		if x.Else != nil {
			f.add("else{")
			switch e := x.Else.(type) {
			case *ast.BlockStmt:
				f.block(fset, e.List)
			default:
				f.stmt(fset, e)
			}
			f.add("}")
		}
	case *ast.RangeStmt:
		f.calls(fset, x.X)
		f.add("range:" + exprString(x.X) + "{")
		f.block(fset, x.Body.List)
		f.add("}")
	case *ast.ForStmt:
		if x.Init != nil {
			f.stmt(fset, x.Init)
		}
		f.add("for{")
		if x.Cond != nil {
			f.calls(fset, x.Cond)
		}
		f.block(fset, x.Body.List)
		if x.Post != nil {
			f.stmt(fset, x.Post)
		}
		f.add("}")
	case *ast.SelectStmt:
		f.add("select{")
		for _, c := range x.Body.List {
			cc := c.(*ast.CommClause)
			if cc.Comm == nil {
				f.add("default{")
			} else {
				f.add("case:" + srcOf(fset, cc.Comm) + "{")
			}
			f.block(fset, cc.Body)
			f.add("}")
		}
		f.add("}")
	case *ast.SwitchStmt:
		if x.Init != nil {
			f.stmt(fset, x.Init)
		}
		if x.Tag != nil {
			f.calls(fset, x.Tag)
		}
		f.add("switch{")
		for _, c := range x.Body.List {
			f.add("case{")
			f.block(fset, c.(*ast.CaseClause).Body)
			f.add("}")
		}
		f.add("}")
	case *ast.TypeSwitchStmt:
		f.add("switch{")
		for _, c := range x.Body.List {
			f.add("case{")
			f.block(fset, c.(*ast.CaseClause).Body)
			f.add("}")
		}
		f.add("}")
	case *ast.GoStmt:
		for _, a := range x.Call.Args {
			f.calls(fset, a)
		}
		if fl, ok := x.Call.Fun.(*ast.FuncLit); ok {
			f.add("go{")
			f.block(fset, fl.Body.List)
			f.add("}")
		} else {
			f.add("go:" + exprString(x.Call.Fun))
		}
	case *ast.DeferStmt:
		if fl, ok := x.Call.Fun.(*ast.FuncLit); ok {
			f.add("defer{")
			f.block(fset, fl.Body.List)
			f.add("}")
		} else {
			name := exprString(x.Call.Fun)
			if name == "verifYield" && len(x.Call.Args) > 0 {
				if bl, ok := x.Call.Args[0].(*ast.BasicLit); ok {
					s, _ := strconv.Unquote(bl.Value)
					name += ":" + s
				}
			}
			f.add("defer:" + name)
		}
	case *ast.BranchStmt:
		f.add(strings.ToLower(x.Tok.String()))
	case *ast.ReturnStmt:
		for _, r := range x.Results {
			f.calls(fset, r)
		}
		f.add("return")
	case *ast.BlockStmt:
		f.block(fset, x.List)
	case *ast.LabeledStmt:
		f.stmt(fset, x.Stmt)
	}
}

type flowTarget struct {
	file, recv, fn, lean string
	// closure: take the body of the first function literal assigned to / passed as this name inside fn ("" = fn itself)
	closure string
}

var flowTargets = []flowTarget{
	{"event_bus.go", "", "PublishContext", "publishFlow", ""},
	{"event_bus.go", "", "callHandlerWithContext", "handlerFlow", ""},
	{"event_bus.go", "", "Subscribe", "subscribeFlow", ""},
	{"event_bus.go", "", "SubscribeContext", "subscribeCtxFlow", ""},
	{"event_bus.go", "", "Unsubscribe", "unsubscribeFlow", ""},
	{"event_bus.go", "", "Clear", "clearFlow", ""},
	{"event_bus.go", "", "ClearAll", "clearAllFlow", ""},
	{"event_bus.go", "inflight", "wait", "inflightWaitFlow", ""},
	{"event_bus.go", "inflight", "done", "inflightDoneFlow", ""},
	{"event_bus.go", "internalHandler", "awaitTurn", "awaitTurnFlow", ""},
	{"event_bus.go", "internalHandler", "releaseTurn", "releaseTurnFlow", ""},
	{"persist.go", "MemoryStore", "Append", "memAppendFlow", ""},
	{"persist.go", "MemoryStore", "Read", "memReadFlow", ""},
	{"persist.go", "MemoryStore", "SaveOffset", "memSaveFlow", ""},
	{"persist.go", "MemoryStore", "LoadOffset", "memLoadFlow", ""},
	{"stores/sqlite/store.go", "SQLiteStore", "Read", "sqlReadFlow", ""},
	{"stores/durablestream/store.go", "Store", "Append", "dsAppendFlow", ""},
	{"event_bus.go", "EventBus", "Shutdown", "shutdownFlow", ""},
	{"persist.go", "EventBus", "persistEvent", "persistFlow", ""},
	{"persist.go", "EventBus", "Replay", "replayFlow", ""},
	{"persist.go", "", "SubscribeWithReplay", "resumeFlow", ""},
	{"persist.go", "", "SubscribeWithReplay", "resumeLiveFlow", "wrappedHandler"},
	{"persist.go", "", "SubscribeWithReplay", "resumeReplayFlow", "arg:bus.Replay"},
	{"persist.go", "EventBus", "ReplayWithUpcast", "replayUpcastFlow", "arg:bus.Replay"},
	{"upcast.go", "upcastRegistry", "apply", "applyFlow", ""},
	{"upcast.go", "upcastRegistry", "register", "registerFlow", ""},
	{"state/materializer.go", "Materializer", "Apply", "matApplyFlow", ""},
	{"state/materializer.go", "Materializer", "applyChange", "matChangeFlow", ""},
	{"state/materializer.go", "Materializer", "applyControl", "matControlFlow", ""},
	{"state/materializer.go", "typedCollectionApplier[]", "applyChange", "collChangeFlow", ""},
	{"stores/sqlite/store.go", "SQLiteStore", "Append", "sqlAppendFlow", ""},
	{"stores/sqlite/store.go", "SQLiteStore", "streamBatch", "sqlStreamBatchFlow", ""},
	{"stores/durablestream/store.go", "Store", "Read", "dsReadFlow", ""},
	{"stores/sqlite/schema.go", "", "migrateV1", "migrateV1Flow", ""},
	{"stores/sqlite/schema.go", "", "migrate", "migrateFlow", ""},
	{"otel/observability.go", "Observability", "OnPublishStart", "otelPublishStartFlow", ""},
	{"otel/observability.go", "Observability", "OnPublishComplete", "otelPublishCompleteFlow", ""},
	{"otel/observability.go", "Observability", "OnHandlerStart", "otelHandlerStartFlow", ""},
	{"otel/observability.go", "Observability", "OnHandlerComplete", "otelHandlerCompleteFlow", ""},
	{"otel/observability.go", "Observability", "OnPersistStart", "otelPersistStartFlow", ""},
	{"otel/observability.go", "Observability", "OnPersistComplete", "otelPersistCompleteFlow", ""},
}

func recvName(d *ast.FuncDecl) string {
	if d.Recv == nil || len(d.Recv.List) == 0 {
		return ""
	}
	return exprString(d.Recv.List[0].Type)
}

func findClosure(body *ast.BlockStmt, name string) *ast.FuncLit {
	var out *ast.FuncLit
	ast.Inspect(body, func(n ast.Node) bool {
		if out != nil {
			return false
		}
		if ce, ok := n.(*ast.CallExpr); ok && strings.HasPrefix(name, "arg:") && exprString(ce.Fun) == name[4:] {
			for _, a := range ce.Args {
				if fl, ok := a.(*ast.FuncLit); ok {
					out = fl
					return false
				}
			}
		}
		if as, ok := n.(*ast.AssignStmt); ok && len(as.Lhs) == 1 && len(as.Rhs) == 1 {
			if id, ok := as.Lhs[0].(*ast.Ident); ok && id.Name == name {
				if fl, ok := as.Rhs[0].(*ast.FuncLit); ok {
					out = fl
				}
			}
		}
		return true
	})
	return out
}

// vocabulary: the tokens the obligations of Ebu/Spec/Flow.lean name (Lean constant, token); a token that does not
// occur in the source any more still gets an id (one that occurs nowhere)
var flowVocab = [][2]string{
	{"obsPublishStart", "call:bus.observability.OnPublishStart"}, {"obsPublishComplete", "call:bus.observability.OnPublishComplete"},
	{"hookPre", "call:bus.beforePublish"}, {"hookPreCtx", "call:bus.beforePublishCtx"},
	{"hookPost", "call:bus.afterPublish"}, {"hookPostCtx", "call:bus.afterPublishCtx"},
	{"persist", "call:bus.persistEvent"}, {"shardRLock", "call:shard.mu.RLock"}, {"shardRUnlock", "call:shard.mu.RUnlock"},
	{"copySnapshot", "call:copy"}, {"rangeSnapshot", "range:handlersCopy{"}, {"ifFilter", "if:h.filter != nil{"},
	{"ifOnce", "if:h.once{"}, {"cas", "call:atomic.CompareAndSwapUint32"}, {"claim", "set:onceHandlersToRemove"},
	{"ifAsync", "if:h.async{"}, {"inflightAdd", "call:bus.wg.add"}, {"inflightDone", "defer:bus.wg.done"},
	{"ifSeq", "if:h.sequential{"}, {"takeTicket", "call:h.takeTicket"}, {"goFunc", "go{"},
	{"ifSeqInGo", "if:handler.sequential{"}, {"awaitTurn", "call:handler.awaitTurn"}, {"releaseTurn", "defer:handler.releaseTurn"},
	{"callAsync", "call:callHandlerWithContext:true"}, {"callSync", "call:callHandlerWithContext:false"},
	{"selectO", "select{"}, {"caseCtxDone", "case:<-ctx.Done(){"}, {"defaultO", "default{"}, {"continueT", "continue"},
	{"returnT", "return"}, {"elseO", "else{"},
	{"shardLock", "call:shard.mu.Lock"}, {"shardUnlock", "call:shard.mu.Unlock"}, {"setShardHandlers", "set:shard.handlers[]"},
	{"rangeClaimed", "range:onceHandlersToRemove{"}, {"ifSameHandler", "if:h == onceHandler{"},
	// callHandlerWithContext
	{"deferO", "defer{"}, {"recoverC", "call:recover"}, {"ifRecovered", "if:r != nil{"}, {"panicHandlerC", "call:panicHandler"},
	{"obsHandlerComplete", "call:obs.OnHandlerComplete"}, {"obsHandlerStart", "call:obs.OnHandlerStart"},
	{"handlerLock", "call:h.mu.Lock"}, {"handlerUnlockDeferred", "defer:h.mu.Unlock"}, {"switchO", "switch{"},
	// persistEvent
	{"marshal", "call:json.Marshal"}, {"storeMuLock", "call:bus.storeMu.Lock"}, {"storeMuUnlock", "call:bus.storeMu.Unlock"},
	{"storeAppend", "call:bus.store.Append"}, {"setLastOffset", "set:bus.lastOffset"}, {"ifSaveOk", "if:saveErr == nil{"},
	{"obsPersistStart", "call:bus.observability.OnPersistStart"}, {"obsPersistComplete", "call:bus.observability.OnPersistComplete"},
	{"persistErrH", "call:bus.persistenceErrorHandler"}, {"forO", "for{"}, {"ifMarshalErr", "if:err != nil{"}, {"ifSaveErr", "if:saveErr != nil{"},
	{"withTimeout", "call:context.WithTimeout"}, {"ifPersistTimeout", "if:bus.persistenceTimeout > 0{"}, {"deferCancel", "defer:cancel"}, {"setCtx", "set:ctx"}, {"setCancel", "set:cancel"}, {"setErr", "set:err"},
	// Shutdown
	{"busWait", "call:bus.Wait"}, {"closeDone", "call:close"}, {"caseDone", "case:<-done{"}, {"storeClose", "call:closer.Close"},
	// Replay / SubscribeWithReplay
	{"storeRead", "call:bus.store.Read"}, {"readStream", "call:streamer.ReadStream"}, {"replayHandler", "call:handler"},
	{"ifStuck", "if:nextOffset == offset{"}, {"ifEmptyBatch", "if:len(events) == 0{"}, {"breakT", "break"},
	{"loadOffset", "call:subStore.LoadOffset"}, {"busReplay", "call:bus.Replay"}, {"liveSubscribe", "call:Subscribe"},
	{"saveOffset", "call:subStore.SaveOffset"}, {"upcastApply", "call:bus.upcastRegistry.apply"},
	{"ifOtherType", "if:eventTypeName != typeName{"}, {"unmarshal", "call:json.Unmarshal"},
	{"saveMuLock", "call:saveMu.Lock"}, {"saveMuUnlockDeferred", "defer:saveMu.Unlock"}, {"storeMuRLock", "call:bus.storeMu.RLock"},
	{"storeMuRUnlock", "call:bus.storeMu.RUnlock"}, {"setOffset", "set:offset"}, {"ifNothingPersisted", "if:offset == OffsetOldest{"},
	{"ifUpcastOk", "if:err == nil{"},
	// upcast registry
	{"regRLock", "call:r.mu.RLock"}, {"regRUnlockDeferred", "defer:r.mu.RUnlock"}, {"regLock", "call:r.mu.Lock"}, {"regUnlockDeferred", "defer:r.mu.Unlock"},
	{"ifDeclaredSeen", "if:appliedTypes[upcaster.ToType]{"}, {"upcastCall", "call:upcaster.Upcast"}, {"ifReturnedSeen", "if:appliedTypes[newType]{"},
	{"upcastErrH", "call:r.errorHandler"}, {"setCurrentData", "set:currentData"}, {"setCurrentType", "set:currentType"}, {"markApplied", "set:appliedTypes[]"},
	{"cycleCheck", "call:r.wouldCreateCycle"}, {"insertUpcaster", "set:r.upcasters[]"},
	// materializer
	{"applyControl", "call:m.applyControl"}, {"applyChange", "call:m.applyChange"}, {"matLock", "call:m.mu.Lock"}, {"matUnlock", "call:m.mu.Unlock"},
	{"setMatLastOffset", "set:m.lastOffset"}, {"collApply", "call:collection.applyChange"}, {"onError", "call:m.cfg.onError"},
	{"clearColl", "call:c.clear"}, {"rangeCollections", "range:m.collections{"}, {"onReset", "call:m.cfg.onReset"}, {"onSnapshot", "call:m.cfg.onSnapshot"},
	{"storeSet", "call:a.collection.store.Set"}, {"storeDelete", "call:a.collection.store.Delete"}, {"compositeKey", "call:CompositeKey"},
	{"ifStrict", "if:m.cfg.strictSchema{"}, {"ifUnknownType", "if:!ok{"},
	// registry calls, condition variables, memory store
	{"deferShardUnlock", "defer:shard.mu.Unlock"}, {"rangeHandlers", "range:handlers{"}, {"ifSamePtr", "if:reflect.ValueOf(h.handler).Pointer() == handlerPtr{"},
	{"rangeOpts", "range:opts{"}, {"ifNilOpt", "if:opt == nil{"}, {"callOpt", "call:opt"}, {"callAppend", "call:append"}, {"callDelete", "call:delete"},
	{"shardsLock", "call:bus.shards[].mu.Lock"}, {"shardsUnlock", "call:bus.shards[].mu.Unlock"}, {"setShardsHandlers", "set:bus.shards[].handlers"},
	{"inflightCondWait", "call:c.cond.Wait"}, {"inflightBroadcast", "call:c.cond.Broadcast"}, {"setInflightN", "set:c.n"}, {"ifInflightZero", "if:c.n == 0 && c.cond != nil{"},
	{"turnCondWait", "call:h.seqCond.Wait"}, {"turnBroadcast", "call:h.seqCond.Broadcast"}, {"turnSignal", "call:h.seqCond.Signal"}, {"setServing", "set:h.seqServing"},
	{"seqMuLock", "call:h.seqMu.Lock"}, {"seqMuUnlock", "call:h.seqMu.Unlock"},
	{"memLock", "call:m.mu.Lock"}, {"memUnlockDeferred", "defer:m.mu.Unlock"}, {"memRLock", "call:m.mu.RLock"}, {"memRUnlockDeferred", "defer:m.mu.RUnlock"},
	{"setNextOffset", "set:m.nextOffset"}, {"sprintf", "call:fmt.Sprintf"}, {"setMemEvents", "set:m.events"}, {"rangeMemEvents", "range:m.events{"},
	{"ifAfterFrom", "if:from == OffsetOldest || event.Offset > from{"}, {"ifLimitReached", "if:limit > 0 && len(result) >= limit{"}, {"setSubscriptions", "set:m.subscriptions[]"},
	// OpenTelemetry adapter
	{"tracerStart", "call:o.tracer.Start"}, {"spanFromContext", "call:trace.SpanFromContext"}, {"spanEnd", "call:span.End"},
	{"publishCounterAdd", "call:o.publishCounter.Add"}, {"handlerCounterAdd", "call:o.handlerCounter.Add"}, {"persistCounterAdd", "call:o.persistCounter.Add"},
	{"handlerErrorsAdd", "call:o.handlerErrors.Add"}, {"persistErrorsAdd", "call:o.persistErrors.Add"}, {"ifErr", "if:err != nil{"},
	{"setStatus", "call:span.SetStatus"}, {"recordError", "call:span.RecordError"},
	// sqlite migration
	{"beginTx", "call:db.BeginTx"}, {"txRollback", "call:tx.Rollback"}, {"txExec", "call:tx.ExecContext"}, {"txCommit", "call:tx.Commit"},
	{"rangeStatements", "range:statements{"}, {"ifOldVersion", "if:version < 1{"}, {"callMigrateV1", "call:migrateV1"},
	// sqlite
	{"sqlExec", "call:s.appendStmt.ExecContext"}, {"lastInsertId", "call:result.LastInsertId"}, {"toUTC", "call:event.Timestamp.UTC"},
	{"rowsNext", "call:rows.Next"}, {"rowsErr", "call:rows.Err"}, {"yieldC", "call:yield"}, {"rowsScan", "call:rows.Scan"},
}

func emitPipeline(repo, out string) error {
	var sb strings.Builder
	sb.WriteString("/- GENERATED by /verif/go/extract (pipeline.go); do not edit.\nControl-flow skeletons of the functions the bus models transcribe, in source order (token grammar: see pipeline.go).\nTokens are coded as indices into `names` (kept small so that `decide` evaluates the obligations in the kernel). -/\nnamespace Ebu.Generated.Flow\n")
	ids := map[string]int{}
	var names []string
	id := func(t string) int {
		if i, ok := ids[t]; ok {
			return i
		}
		ids[t] = len(names)
		names = append(names, t)
		return ids[t]
	}
	id("}") // the closing token is 0
	files := map[string]*ast.File{}
	fset := token.NewFileSet()
	for _, t := range flowTargets {
		f := files[t.file]
		if f == nil {
			var err error
			f, err = parser.ParseFile(fset, filepath.Join(repo, t.file), nil, 0)
			if err != nil {
				return err
			}
			files[t.file] = f
		}
		var toks []string
		found := false
		for _, d := range f.Decls {
			fd, ok := d.(*ast.FuncDecl)
			if !ok || fd.Name.Name != t.fn || recvName(fd) != t.recv || fd.Body == nil {
				continue
			}
			body := fd.Body
			if t.closure != "" {
				fl := findClosure(fd.Body, t.closure)
				if fl == nil {
					continue
				}
				body = fl.Body
			}
			ft := &flowTok{}
			ft.block(fset, body.List)
			toks = ft.toks
			found = true
		}
		if !found {
			toks = []string{"<function not found>"}
		}
		fmt.Fprintf(&sb, "\n/-- %s: %s%s%s%s\n", t.file, t.recv, map[bool]string{true: ".", false: ""}[t.recv != ""], t.fn,
			map[bool]string{true: " (closure " + t.closure + ")", false: ""}[t.closure != ""])
		line := " "
		for _, tk := range toks {
			if len(line)+len(tk) > 118 {
				sb.WriteString(line + "\n")
				line = " "
			}
			line += " " + strings.ReplaceAll(tk, "-/", "-∕")
		}
		sb.WriteString(line + " -/\n")
		fmt.Fprintf(&sb, "def %s : List Nat := [", t.lean)
		for i, tk := range toks {
			if i > 0 {
				sb.WriteString(", ")
			}
			sb.WriteString(strconv.Itoa(id(tk)))
		}
		sb.WriteString("]\n")
	}
	sb.WriteString("\n/-- the tokens the obligations name -/\n")
	for _, v := range flowVocab {
		fmt.Fprintf(&sb, "def %s : Nat := %d  -- %s\n", v[0], id(v[1]), v[1])
	}
	var opens, rets []string
	for i, n := range names {
		if strings.HasSuffix(n, "{") {
			opens = append(opens, strconv.Itoa(i))
		}
		if n == "return" || strings.HasPrefix(n, "return:") {
			rets = append(rets, strconv.Itoa(i))
		}
	}
	fmt.Fprintf(&sb, "\n/-- the closing token, the tokens that open a nesting level, the return tokens -/\ndef closeTok : Nat := 0\ndef opens : List Nat := [%s]\ndef returns : List Nat := [%s]\n", strings.Join(opens, ", "), strings.Join(rets, ", "))
	sb.WriteString("\ndef names : List String := [\n")
	for i, n := range names {
		fmt.Fprintf(&sb, "  %s%s  -- %d\n", strconv.Quote(n), map[bool]string{true: ",", false: ""}[i+1 < len(names)], i)
	}
	sb.WriteString("]\n\nend Ebu.Generated.Flow\n")
	return os.WriteFile(filepath.Join(out, "Flow.lean"), []byte(sb.String()), 0o644)
}

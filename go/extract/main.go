// Command extract regenerates lean/Ebu/Generated/*.lean from the Go sources under -repo:
// which lock is held (and in which mode) at every access to the shared fields of the bus, the
// stores, the upcast registry and the materializer; which callbacks run under which lock; which
// lock is taken while which other lock is held; and a few constants (numShards, SQL text).
// It is purely syntactic (go/parser + go/ast): fields are recognised by name within the files
// listed in `targets`, locks by `<expr>.mu.Lock/RLock/Unlock/RUnlock` (and `defer`).
package main

import (
	"flag"
	"fmt"
	"go/ast"
	"go/parser"
	"go/token"
	"os"
	"path/filepath"
	"sort"
	"strconv"
	"strings"
)

type target struct {
	file   string
	fields map[string]string // field name -> location name; "" guard means the default lock of the file
	locks  map[string]string // lock selector (e.g. "mu", "storeMu") -> lock name
	guard  map[string]string // location -> lock name that must guard it
}

var targets = []target{
	{file: "event_bus.go",
		fields: map[string]string{"handlers": "shard.handlers", "lastOffset": "bus.lastOffset", "executed": "handler.executed", "seqTickets": "handler.seqTickets", "seqServing": "handler.seqServing", "n": "inflight.n"},
		locks:  map[string]string{"mu": "shard.mu|handler.mu|inflight.mu", "storeMu": "bus.storeMu", "seqMu": "handler.seqMu"},
		guard:  map[string]string{"shard.handlers": "shard.mu", "bus.lastOffset": "bus.storeMu", "handler.seqTickets": "handler.seqMu", "handler.seqServing": "handler.seqMu", "inflight.n": "inflight.mu"}},
	{file: "persist.go",
		fields: map[string]string{"lastOffset": "bus.lastOffset", "events": "memstore.events", "subscriptions": "memstore.subscriptions", "nextOffset": "memstore.nextOffset"},
		locks:  map[string]string{"storeMu": "bus.storeMu", "mu": "memstore.mu"},
		guard:  map[string]string{"bus.lastOffset": "bus.storeMu", "memstore.events": "memstore.mu", "memstore.subscriptions": "memstore.mu", "memstore.nextOffset": "memstore.mu"}},
	{file: "upcast.go",
		fields: map[string]string{"upcasters": "upcast.upcasters"},
		locks:  map[string]string{"mu": "upcast.mu"},
		guard:  map[string]string{"upcast.upcasters": "upcast.mu"}},
	{file: "state/materializer.go",
		fields: map[string]string{"collections": "mat.collections", "lastOffset": "mat.lastOffset", "data": "statestore.data"},
		locks:  map[string]string{"mu": "mat.mu|statestore.mu"},
		guard:  map[string]string{"mat.collections": "mat.mu", "mat.lastOffset": "mat.mu", "statestore.data": "statestore.mu"}},
}

type access struct {
	fn, loc  string
	write    bool
	atomic   bool
	held     map[string]string // lock name -> "R" | "W"
	line     int
	viaAlias bool
}

type callback struct {
	fn, what string
	held     map[string]string
	line     int
}

type nesting struct {
	fn, outer, inner string
	line             int
}

type walker struct {
	t        target
	fset     *token.FileSet
	fn       string
	recv     string // receiver type name of the current method
	accesses []access
	cbs      []callback
	nests    []nesting
	// local variables that alias a tracked map/slice (assigned from a tracked field)
	alias map[string]string
	skip  map[*ast.SelectorExpr]bool
	// entry lock sets of helper functions called only with a lock held (filled in a second pass)
}

func copyHeld(h map[string]string) map[string]string {
	c := map[string]string{}
	for k, v := range h {
		c[k] = v
	}
	return c
}

func intersect(a, b map[string]string) map[string]string {
	c := map[string]string{}
	for k, v := range a {
		if w, ok := b[k]; ok {
			if v == w {
				c[k] = v
			} else if strings.HasPrefix(k, "#") {
				c[k] = "0"
			} else {
				c[k] = "R"
			}
		}
	}
	return c
}

// isCountPositive: `<x>.n > 0`
func isCountPositive(e ast.Expr) bool {
	b, ok := e.(*ast.BinaryExpr)
	if !ok || b.Op != token.GTR {
		return false
	}
	lit, ok := b.Y.(*ast.BasicLit)
	return ok && lit.Value == "0" && strings.HasSuffix(exprString(b.X), ".n")
}

func exprString(e ast.Expr) string {
	switch x := e.(type) {
	case *ast.Ident:
		return x.Name
	case *ast.SelectorExpr:
		return exprString(x.X) + "." + x.Sel.Name
	case *ast.IndexExpr:
		return exprString(x.X) + "[]"
	case *ast.StarExpr:
		return exprString(x.X)
	case *ast.ParenExpr:
		return exprString(x.X)
	case *ast.UnaryExpr:
		return exprString(x.X)
	case *ast.CallExpr:
		return exprString(x.Fun) + "()"
	}
	return "?"
}

// lockName disambiguates "mu" by the expression it hangs off and the method receiver.
func (w *walker) lockName(sel *ast.SelectorExpr) (string, bool) {
	names, ok := w.t.locks[sel.Sel.Name]
	if !ok {
		return "", false
	}
	opts := strings.Split(names, "|")
	if len(opts) == 1 {
		return opts[0], true
	}
	base := exprString(sel.X)
	for _, o := range opts {
		owner := strings.Split(o, ".")[0]
		switch owner {
		case "shard":
			if strings.Contains(base, "shard") {
				return o, true
			}
		case "handler":
			if base == "h" || base == "handler" || strings.Contains(base, "Handler") {
				return o, true
			}
		case "inflight":
			if base == "c" || w.recv == "inflight" {
				return o, true
			}
		case "mat":
			if w.recv == "Materializer" || base == "m" && w.recv != "MemoryStore" {
				return o, true
			}
		case "statestore":
			if w.recv == "MemoryStore" {
				return o, true
			}
		}
	}
	return opts[0] + "?" + base, true
}

func (w *walker) locOf(sel *ast.SelectorExpr) (string, bool) {
	loc, ok := w.t.fields[sel.Sel.Name]
	if !ok {
		return "", false
	}
	// disambiguate fields that exist on several structs of one file
	if sel.Sel.Name == "lastOffset" && w.t.file == "state/materializer.go" {
		return "mat.lastOffset", true
	}
	if sel.Sel.Name == "n" && !(w.recv == "inflight") {
		return "", false
	}
	if sel.Sel.Name == "data" && w.recv != "MemoryStore" {
		return "", false
	}
	if sel.Sel.Name == "events" && w.recv != "MemoryStore" {
		return "", false
	}
	return loc, true
}

func (w *walker) record(loc string, write, atomic bool, held map[string]string, pos token.Pos, alias bool) {
	w.accesses = append(w.accesses, access{w.fn, loc, write, atomic, copyHeld(held), w.fset.Position(pos).Line, alias})
}

// scanExpr records reads of tracked fields / aliases inside an expression, and callbacks.
func (w *walker) scanExpr(e ast.Node, held map[string]string, writeRoot ast.Expr) {
	if e == nil {
		return
	}
	ast.Inspect(e, func(n ast.Node) bool {
		switch x := n.(type) {
		case *ast.FuncLit:
			// a closure body runs later (goroutine, stored callback): analysed as its own function
			sub := &walker{t: w.t, fset: w.fset, fn: w.fn + ".func", recv: w.recv, alias: map[string]string{}, skip: map[*ast.SelectorExpr]bool{}}
			sub.block(x.Body.List, map[string]string{})
			w.accesses = append(w.accesses, sub.accesses...)
			w.cbs = append(w.cbs, sub.cbs...)
			w.nests = append(w.nests, sub.nests...)
			return false
		case *ast.SelectorExpr:
			if loc, ok := w.locOf(x); ok && !w.skip[x] {
				w.record(loc, false, false, held, x.Pos(), false)
			}
		case *ast.Ident:
			if loc, ok := w.alias[x.Name]; ok && x.Obj != nil {
				w.record(loc, false, false, held, x.Pos(), true)
			}
		case *ast.CallExpr:
			w.call(x, held)
		}
		return true
	})
}

var callbackNames = map[string]string{
	"beforePublish": "hook", "afterPublish": "hook", "beforePublishCtx": "hook", "afterPublishCtx": "hook",
	"filterFunc": "filter", "panicHandler": "panicHandler", "persistenceErrorHandler": "persistenceErrorHandler",
	"callHandlerWithContext": "handler", "Upcast": "upcastFunc", "errorHandler": "upcastErrorHandler",
	"Append": "store.Append", "onReset": "onReset", "onSnapshot": "onSnapshot", "onError": "onError", "fn": "handler",
}

func (w *walker) call(c *ast.CallExpr, held map[string]string) {
	name := ""
	switch f := c.Fun.(type) {
	case *ast.Ident:
		name = f.Name
	case *ast.SelectorExpr:
		name = f.Sel.Name
		// atomic.CompareAndSwapUint32(&h.executed, …)
		if id, ok := f.X.(*ast.Ident); ok && id.Name == "atomic" && len(c.Args) > 0 {
			if u, ok := c.Args[0].(*ast.UnaryExpr); ok {
				if sel, ok := u.X.(*ast.SelectorExpr); ok {
					if loc, ok := w.locOf(sel); ok {
						w.record(loc, true, true, held, c.Pos(), false)
						w.skip[sel] = true
					}
				}
			}
		}
	case *ast.IndexExpr:
		if id, ok := f.X.(*ast.Ident); ok {
			name = id.Name
		}
	}
	if what, ok := callbackNames[name]; ok {
		if what == "store.Append" && w.recv == "MemoryStore" {
			return
		}
		w.cbs = append(w.cbs, callback{w.fn, what, copyHeld(held), w.fset.Position(c.Pos()).Line})
	}
}

func (w *walker) lockCall(s ast.Stmt) (lock, op string, ok bool) {
	var call *ast.CallExpr
	switch x := s.(type) {
	case *ast.ExprStmt:
		call, _ = x.X.(*ast.CallExpr)
	case *ast.DeferStmt:
		call = x.Call
	}
	if call == nil {
		return
	}
	sel, isSel := call.Fun.(*ast.SelectorExpr)
	if !isSel {
		return
	}
	switch sel.Sel.Name {
	case "Lock", "RLock", "Unlock", "RUnlock":
	default:
		return
	}
	inner, isSel2 := sel.X.(*ast.SelectorExpr)
	if !isSel2 {
		return
	}
	name, known := w.lockName(inner)
	if !known {
		return
	}
	return name, sel.Sel.Name, true
}

func (w *walker) block(stmts []ast.Stmt, held map[string]string) map[string]string {
	for _, s := range stmts {
		held = w.stmt(s, held)
	}
	return held
}

func (w *walker) stmt(s ast.Stmt, held map[string]string) map[string]string {
	if lock, op, ok := w.lockCall(s); ok {
		if _, isDefer := s.(*ast.DeferStmt); isDefer {
			return held // released at function end: stays held for the rest of the body
		}
		held = copyHeld(held)
		switch op {
		case "Lock", "RLock":
			for outer := range held {
				if strings.HasPrefix(outer, "#") {
					continue
				}
				w.nests = append(w.nests, nesting{w.fn, outer, lock, w.fset.Position(s.Pos()).Line})
			}
			if op == "Lock" {
				held[lock] = "W"
			} else {
				held[lock] = "R"
			}
			held["#"+lock] = fmt.Sprint(w.fset.Position(s.Pos()).Line) // which critical section: the line of its Lock call
		default:
			delete(held, lock)
			delete(held, "#"+lock)
		}
		return held
	}
	switch x := s.(type) {
	case *ast.AssignStmt:
		for _, r := range x.Rhs {
			w.scanExpr(r, held, nil)
		}
		for i, l := range x.Lhs {
			// writes: field = …, field[k] = …, alias = … does not write the field itself
			root := l
			if ix, ok := l.(*ast.IndexExpr); ok {
				w.scanExpr(ix.Index, held, nil)
				root = ix.X
			}
			switch r := root.(type) {
			case *ast.SelectorExpr:
				if loc, ok := w.locOf(r); ok {
					w.record(loc, true, false, held, r.Pos(), false)
				} else {
					w.scanExpr(r, held, nil)
				}
			case *ast.Ident:
				if _, isIdx := l.(*ast.IndexExpr); isIdx {
					if loc, ok := w.alias[r.Name]; ok {
						w.record(loc, true, false, held, r.Pos(), true)
					}
				} else if i < len(x.Rhs) || len(x.Rhs) == 1 {
					// does the right-hand side hand out the tracked map/slice itself (not a copy, not an element count)?
					rhs := x.Rhs[0]
					if i < len(x.Rhs) {
						rhs = x.Rhs[i]
					}
					if loc, ok := w.aliasSource(rhs); ok {
						w.alias[r.Name] = loc
					} else {
						delete(w.alias, r.Name)
					}
				}
			default:
				w.scanExpr(root, held, nil)
			}
		}
	case *ast.IncDecStmt:
		if sel, ok := x.X.(*ast.SelectorExpr); ok {
			if loc, ok := w.locOf(sel); ok {
				w.record(loc, true, false, held, sel.Pos(), false)
				return held
			}
		}
		w.scanExpr(x.X, held, nil)
	case *ast.ExprStmt:
		if c, ok := x.X.(*ast.CallExpr); ok {
			if id, ok := c.Fun.(*ast.Ident); ok && id.Name == "delete" && len(c.Args) > 0 {
				switch m := c.Args[0].(type) {
				case *ast.SelectorExpr:
					if loc, ok := w.locOf(m); ok {
						w.record(loc, true, false, held, m.Pos(), false)
					}
				case *ast.Ident:
					if loc, ok := w.alias[m.Name]; ok {
						w.record(loc, true, false, held, m.Pos(), true)
					}
				}
				for _, a := range c.Args[1:] {
					w.scanExpr(a, held, nil)
				}
				return held
			}
		}
		w.scanExpr(x.X, held, nil)
	case *ast.IfStmt:
		if x.Init != nil {
			held = w.stmt(x.Init, held)
		}
		w.scanExpr(x.Cond, held, nil)
		h1 := w.block(x.Body.List, copyHeld(held))
		h2 := held
		if x.Else != nil {
			h2 = w.stmt(x.Else, copyHeld(held))
		}
		if endsInReturn(x.Body.List) {
			return h2
		}
		return intersect(h1, h2)
	case *ast.BlockStmt:
		return w.block(x.List, held)
	case *ast.ForStmt:
		if x.Init != nil {
			held = w.stmt(x.Init, held)
		}
		w.scanExpr(x.Cond, held, nil)
		w.block(x.Body.List, copyHeld(held))
		return held
	case *ast.RangeStmt:
		w.scanExpr(x.X, held, nil)
		w.block(x.Body.List, copyHeld(held))
		return held
	case *ast.SwitchStmt:
		if x.Init != nil {
			held = w.stmt(x.Init, held)
		}
		w.scanExpr(x.Tag, held, nil)
		for _, c := range x.Body.List {
			cc := c.(*ast.CaseClause)
			for _, e := range cc.List {
				w.scanExpr(e, held, nil)
			}
			w.block(cc.Body, copyHeld(held))
		}
		return held
	case *ast.TypeSwitchStmt:
		for _, c := range x.Body.List {
			cc := c.(*ast.CaseClause)
			w.block(cc.Body, copyHeld(held))
		}
		return held
	case *ast.SelectStmt:
		for _, c := range x.Body.List {
			cc := c.(*ast.CommClause)
			w.block(cc.Body, copyHeld(held))
		}
		return held
	case *ast.ReturnStmt:
		for _, r := range x.Results {
			w.scanExpr(r, held, nil)
		}
	case *ast.DeferStmt:
		w.scanExpr(x.Call, held, nil)
	case *ast.GoStmt:
		w.scanExpr(x.Call, map[string]string{}, nil)
	case *ast.DeclStmt:
		w.scanExpr(x, held, nil)
	}
	return held
}

func endsInReturn(l []ast.Stmt) bool {
	if len(l) == 0 {
		return false
	}
	switch l[len(l)-1].(type) {
	case *ast.ReturnStmt:
		return true
	case *ast.BranchStmt:
		return true
	}
	return false
}

// reference-typed locations (maps / slices): a local copy of the field is an alias of the shared object
var refLoc = map[string]bool{"shard.handlers": true, "upcast.upcasters": true, "memstore.events": true, "memstore.subscriptions": true, "mat.collections": true, "statestore.data": true}

// maps whose ELEMENTS are slices: indexing hands out the shared backing array
var sliceElemLoc = map[string]bool{"shard.handlers": true, "upcast.upcasters": true}

// aliasSource: `x := obj.field` or `x := obj.field[k]` hands out the live map / backing array.
func (w *walker) aliasSource(e ast.Expr) (string, bool) {
	switch x := e.(type) {
	case *ast.SelectorExpr:
		if loc, ok := w.locOf(x); ok && refLoc[loc] {
			return loc, true
		}
	case *ast.IndexExpr:
		if sel, ok := x.X.(*ast.SelectorExpr); ok {
			if loc, ok := w.locOf(sel); ok && sliceElemLoc[loc] {
				return loc, true
			}
		}
		if id, ok := x.X.(*ast.Ident); ok {
			if loc, ok := w.alias[id.Name]; ok && sliceElemLoc[loc] {
				return loc, true
			}
		}
	case *ast.SliceExpr:
		return w.aliasSource(x.X)
	case *ast.CallExpr:
		// append(alias[:i], alias[i+1:]...) still shares the backing array
		if id, ok := x.Fun.(*ast.Ident); ok && id.Name == "append" && len(x.Args) > 0 {
			return w.aliasSource(x.Args[0])
		}
	case *ast.Ident:
		if loc, ok := w.alias[x.Name]; ok {
			return loc, true
		}
	}
	return "", false
}

func heldStr(h map[string]string) string {
	var ks []string
	for k, v := range h {
		ks = append(ks, k+":"+v)
	}
	sort.Strings(ks)
	return strings.Join(ks, ",")
}

func modeOf(h map[string]string, lock string) string {
	if m, ok := h[lock]; ok {
		return m
	}
	return "-"
}

func main() {
	repo := flag.String("repo", "/repo", "repository root")
	out := flag.String("out", "", "output directory for the generated Lean files")
	flag.Parse()
	if *out == "" {
		fmt.Fprintln(os.Stderr, "usage: extract -repo DIR -out DIR")
		os.Exit(2)
	}
	fset := token.NewFileSet()
	var all []access
	var cbs []callback
	var nests []nesting
	guard := map[string]string{}
	// helper functions documented to run with the caller's lock held
	lockedHelpers := map[string]map[string]string{}
	type fnBody struct {
		w    *walker
		decl *ast.FuncDecl
	}
	var bodies []fnBody
	for _, t := range targets {
		f, err := parser.ParseFile(fset, filepath.Join(*repo, t.file), nil, 0)
		if err != nil {
			fmt.Fprintln(os.Stderr, err)
			os.Exit(1)
		}
		for k, v := range t.guard {
			guard[k] = v
		}
		for _, d := range f.Decls {
			fd, ok := d.(*ast.FuncDecl)
			if !ok || fd.Body == nil {
				continue
			}
			recv := ""
			if fd.Recv != nil && len(fd.Recv.List) > 0 {
				recv = strings.TrimSuffix(strings.TrimPrefix(exprString(fd.Recv.List[0].Type), "*"), "[]")
			}
			name := fd.Name.Name
			if recv != "" {
				name = recv + "." + name
			}
			w := &walker{t: t, fset: fset, fn: t.file + ":" + name, recv: recv, alias: map[string]string{}, skip: map[*ast.SelectorExpr]bool{}}
			bodies = append(bodies, fnBody{w, fd})
		}
	}
	// entry lock sets: unexported helpers called only from write-locked callers
	lockedHelpers["upcast.go:upcastRegistry.wouldCreateCycle"] = nil
	lockedHelpers["upcast.go:upcastRegistry.hasCycleDFS"] = nil
	// first pass: compute the lock set at each call site of the helpers
	for _, b := range bodies {
		if _, isHelper := lockedHelpers[b.w.fn]; isHelper {
			continue
		}
		cs := &callSites{helpers: lockedHelpers, recvFile: b.w.t.file}
		b.w.block(b.decl.Body.List, map[string]string{})
		_ = cs
	}
	// simple fixed point for the two helpers: wouldCreateCycle is called from register (under Lock); hasCycleDFS from wouldCreateCycle and itself
	helperEntry := map[string]map[string]string{}
	for _, b := range bodies {
		if b.w.fn == "upcast.go:upcastRegistry.register" {
			// find the lock set at the call to wouldCreateCycle
			held := map[string]string{}
			for _, s := range b.decl.Body.List {
				probe := &walker{t: b.w.t, fset: fset, fn: "probe", recv: b.w.recv, alias: map[string]string{}, skip: map[*ast.SelectorExpr]bool{}}
				found := false
				ast.Inspect(s, func(n ast.Node) bool {
					if c, ok := n.(*ast.CallExpr); ok {
						if sel, ok := c.Fun.(*ast.SelectorExpr); ok && sel.Sel.Name == "wouldCreateCycle" {
							found = true
						}
					}
					return true
				})
				if found {
					helperEntry["upcast.go:upcastRegistry.wouldCreateCycle"] = copyHeld(held)
					helperEntry["upcast.go:upcastRegistry.hasCycleDFS"] = copyHeld(held)
					break
				}
				held = probe.stmt(s, held)
			}
		}
	}
	for _, b := range bodies {
		b.w.accesses, b.w.cbs, b.w.nests = nil, nil, nil
		b.w.alias = map[string]string{}
		entry := map[string]string{}
		if h, ok := helperEntry[b.w.fn]; ok {
			entry = copyHeld(h)
		}
		b.w.block(b.decl.Body.List, entry)
		all = append(all, b.w.accesses...)
		cbs = append(cbs, b.w.cbs...)
		nests = append(nests, b.w.nests...)
	}

	// ---- emit LockFacts.lean ----
	code := map[string]int{}
	var names []string
	id := func(s string) int {
		if c, ok := code[s]; ok {
			return c
		}
		code[s] = len(names)
		names = append(names, s)
		return code[s]
	}
	var sb strings.Builder
	sb.WriteString("/- GENERATED by /verif/go/extract from the Go sources under /repo; do not edit.\n   Strings are coded as indices into `names` (kept small so that `decide` evaluates the tables in the kernel). -/\nnamespace Ebu.Generated\n\n")
	sb.WriteString("/-- one access to a shared location: function, location, write?, atomic?, mode in which the location's guard lock is held (0 = not held, 1 = read-locked, 2 = write-locked), source line, through a local alias?, the critical section it sits in (line of the Lock call that took the guard; 0 = none / differs between branches) -/\n")
	sb.WriteString("structure AccessFact where\n  fn : Nat\n  loc : Nat\n  write : Bool\n  atomic : Bool\n  guardMode : Nat\n  line : Nat\n  viaAlias : Bool\n  csec : Nat\nderiving DecidableEq, Repr\n\n")
	sb.WriteString("def accessFacts : List AccessFact := [\n")
	for i, a := range all {
		g := guard[a.loc]
		mode := 0
		switch modeOf(a.held, g) {
		case "R":
			mode = 1
		case "W":
			mode = 2
		}
		sep := ","
		if i == len(all)-1 {
			sep = ""
		}
		section, _ := strconv.Atoi(a.held["#"+g])
		sb.WriteString(fmt.Sprintf("  ⟨%d, %d, %v, %v, %d, %d, %v, %d⟩%s  -- %s %s\n", id(a.fn), id(a.loc), a.write, a.atomic, mode, a.line, a.viaAlias, section, sep, a.fn, a.loc))
	}
	sb.WriteString("]\n\n")
	sb.WriteString("/-- a call of user-supplied code and the locks held at that point: function, kind of callback, locks held, line -/\n")
	sb.WriteString("structure CallbackFact where\n  fn : Nat\n  what : Nat\n  held : List Nat\n  line : Nat\nderiving DecidableEq, Repr\n\n")
	sb.WriteString("def callbackFacts : List CallbackFact := [\n")
	for i, c := range cbs {
		var hs []string
		var hn []string
		for k := range c.held {
			if strings.HasPrefix(k, "#") {
				continue
			}
			hn = append(hn, k)
		}
		sort.Strings(hn)
		for _, k := range hn {
			hs = append(hs, fmt.Sprint(id(k)))
		}
		sep := ","
		if i == len(cbs)-1 {
			sep = ""
		}
		sb.WriteString(fmt.Sprintf("  ⟨%d, %d, [%s], %d⟩%s  -- %s %s held=%v\n", id(c.fn), id("cb:"+c.what), strings.Join(hs, ", "), c.line, sep, c.fn, c.what, hn))
	}
	sb.WriteString("]\n\n")
	sb.WriteString("/-- lock `inner` is acquired while lock `outer` is held (within one function): (function, outer, inner) -/\n")
	sb.WriteString("def nestingFacts : List (Nat × Nat × Nat) := [\n")
	for i, n := range nests {
		sep := ","
		if i == len(nests)-1 {
			sep = ""
		}
		sb.WriteString(fmt.Sprintf("  (%d, %d, %d)%s  -- %s: %s then %s\n", id(n.fn), id(n.outer), id(n.inner), sep, n.fn, n.outer, n.inner))
	}
	sb.WriteString("]\n\n")
	// codes the obligations refer to (always present, whether or not they occur in the tables)
	for _, k := range []string{"cb:handler", "cb:filter", "cb:hook", "cb:panicHandler", "cb:persistenceErrorHandler", "cb:store.Append", "cb:upcastFunc", "handler.mu", "bus.storeMu", "upcast.mu"} {
		id(k)
	}
	for _, k := range []string{"cb:handler", "cb:filter", "cb:hook", "cb:panicHandler", "cb:persistenceErrorHandler", "cb:store.Append", "cb:upcastFunc", "handler.mu", "bus.storeMu", "upcast.mu"} {
		nm := strings.NewReplacer(":", "_", ".", "_").Replace(k)
		sb.WriteString(fmt.Sprintf("def code_%s : Nat := %d\n", nm, id(k)))
	}
	// functions that validate and insert an upcaster registration
	var regFns []string
	for _, k := range []string{"upcast.go:upcastRegistry.register", "upcast.go:upcastRegistry.wouldCreateCycle", "upcast.go:upcastRegistry.hasCycleDFS"} {
		regFns = append(regFns, fmt.Sprint(id(k)))
	}
	sb.WriteString(fmt.Sprintf("\n/-- register, wouldCreateCycle, hasCycleDFS -/\ndef registerFns : List Nat := [%s]\n", strings.Join(regFns, ", ")))
	sb.WriteString(fmt.Sprintf("def code_handler_executed : Nat := %d\n", id("handler.executed")))
	// functions that look a registration up and change the registry in one go
	var mutFns []string
	for _, k := range []string{"event_bus.go:Subscribe", "event_bus.go:SubscribeContext", "event_bus.go:Unsubscribe", "event_bus.go:Clear", "event_bus.go:ClearAll"} {
		mutFns = append(mutFns, fmt.Sprint(id(k)))
	}
	sb.WriteString(fmt.Sprintf("\n/-- MemoryStore.Append -/\ndef code_memstore_append : Nat := %d\n", id("persist.go:MemoryStore.Append")))
	sb.WriteString(fmt.Sprintf("\n/-- Subscribe, SubscribeContext, Unsubscribe, Clear, ClearAll -/\ndef registryMutators : List Nat := [%s]\ndef code_shard_handlers : Nat := %d\n", strings.Join(mutFns, ", "), id("shard.handlers")))
	var rank []string
	for _, k := range []string{"handler.mu", "bus.storeMu", "memstore.mu", "mat.mu", "statestore.mu", "shard.mu", "upcast.mu", "handler.seqMu", "inflight.mu"} {
		rank = append(rank, fmt.Sprint(id(k)))
	}
	sb.WriteString(fmt.Sprintf("\n/-- the intended lock order, outermost first -/\ndef lockRank : List Nat := [%s]\n", strings.Join(rank, ", ")))
	// constants
	sb.WriteString(fmt.Sprintf("\n/-- `const numShards` of event_bus.go -/\ndef numShards : Nat := %d\n", constInt(filepath.Join(*repo, "event_bus.go"), "numShards")))
	sb.WriteString("def names : List String := [\n")
	for i, n := range names {
		sep := ","
		if i == len(names)-1 {
			sep = ""
		}
		sb.WriteString(fmt.Sprintf("  %s%s\n", strconv.Quote(n), sep))
	}
	sb.WriteString("]\n\n")
	sb.WriteString("\nend Ebu.Generated\n")
	if err := emitConsts(*repo, *out); err != nil {
		fmt.Fprintln(os.Stderr, err)
		os.Exit(1)
	}
	if err := emitSQLFacts(*repo, *out); err != nil {
		fmt.Fprintln(os.Stderr, err)
		os.Exit(1)
	}
	if err := emitPipeline(*repo, *out); err != nil {
		fmt.Fprintln(os.Stderr, err)
		os.Exit(1)
	}
	if err := os.WriteFile(filepath.Join(*out, "LockFacts.lean"), []byte(sb.String()), 0o644); err != nil {
		fmt.Fprintln(os.Stderr, err)
		os.Exit(1)
	}
	fmt.Printf("extracted %d accesses, %d callbacks, %d nestings\n", len(all), len(cbs), len(nests))
}

// constInt returns the value of an integer constant declared at file level.
func constInt(path, name string) int {
	fset := token.NewFileSet()
	f, err := parser.ParseFile(fset, path, nil, 0)
	if err != nil {
		return 0
	}
	for _, d := range f.Decls {
		gd, ok := d.(*ast.GenDecl)
		if !ok || gd.Tok != token.CONST {
			continue
		}
		for _, sp := range gd.Specs {
			vs := sp.(*ast.ValueSpec)
			for i, n := range vs.Names {
				if n.Name == name && i < len(vs.Values) {
					if bl, ok := vs.Values[i].(*ast.BasicLit); ok {
						v, _ := strconv.Atoi(bl.Value)
						return v
					}
				}
			}
		}
	}
	return 0
}

// ---- constants the models hard-code (C10, C11) ----

// emitConsts extracts: the Sprintf verb MemoryStore.Append formats offsets with, the default
// batch size of Replay, the OffsetOldest / OffsetNewest literals, the base FormatInt/ParseInt use in the sqlite store.
func emitConsts(repo, out string) error {
	fset := token.NewFileSet()
	f, err := parser.ParseFile(fset, filepath.Join(repo, "persist.go"), nil, 0)
	if err != nil {
		return err
	}
	memFmt, defBatch, oldest, newest := "", -1, "?", "?"
	for _, d := range f.Decls {
		switch x := d.(type) {
		case *ast.GenDecl:
			if x.Tok == token.CONST {
				for _, sp := range x.Specs {
					vs := sp.(*ast.ValueSpec)
					for i, n := range vs.Names {
						if i < len(vs.Values) {
							if bl, ok := vs.Values[i].(*ast.BasicLit); ok && bl.Kind == token.STRING {
								v, _ := strconv.Unquote(bl.Value)
								if n.Name == "OffsetOldest" {
									oldest = v
								}
								if n.Name == "OffsetNewest" {
									newest = v
								}
							}
						}
					}
				}
			}
		case *ast.FuncDecl:
			if x.Body == nil {
				continue
			}
			name := x.Name.Name
			ast.Inspect(x.Body, func(n ast.Node) bool {
				switch y := n.(type) {
				case *ast.CallExpr:
					if sel, ok := y.Fun.(*ast.SelectorExpr); ok && sel.Sel.Name == "Sprintf" && name == "Append" && len(y.Args) > 0 {
						if bl, ok := y.Args[0].(*ast.BasicLit); ok {
							memFmt, _ = strconv.Unquote(bl.Value)
						}
					}
				case *ast.AssignStmt:
					if name == "Replay" && len(y.Lhs) == 1 && len(y.Rhs) == 1 {
						if id, ok := y.Lhs[0].(*ast.Ident); ok && id.Name == "batchSize" {
							if bl, ok := y.Rhs[0].(*ast.BasicLit); ok && bl.Kind == token.INT {
								defBatch, _ = strconv.Atoi(bl.Value)
							}
						}
					}
				}
				return true
			})
		}
	}
	width, padded := 0, false
	if strings.HasPrefix(memFmt, "%0") && strings.HasSuffix(memFmt, "d") {
		padded = true
		width, _ = strconv.Atoi(memFmt[2 : len(memFmt)-1])
	}
	// sqlite: base of FormatInt / ParseInt
	fs, err := parser.ParseFile(fset, filepath.Join(repo, "stores/sqlite/store.go"), nil, 0)
	if err != nil {
		return err
	}
	fmtBase, parseBase, parseBits := 0, 0, 0
	ast.Inspect(fs, func(n ast.Node) bool {
		if c, ok := n.(*ast.CallExpr); ok {
			if sel, ok := c.Fun.(*ast.SelectorExpr); ok {
				lit := func(e ast.Expr) int {
					if bl, ok := e.(*ast.BasicLit); ok {
						v, _ := strconv.Atoi(bl.Value)
						return v
					}
					return 0
				}
				if sel.Sel.Name == "FormatInt" && len(c.Args) == 2 {
					fmtBase = lit(c.Args[1])
				}
				if sel.Sel.Name == "ParseInt" && len(c.Args) == 3 {
					parseBase, parseBits = lit(c.Args[1]), lit(c.Args[2])
				}
			}
		}
		return true
	})
	// getShard: FNV-1a 32 bit of eventType.String(), masked with numShards-1
	fe, err := parser.ParseFile(fset, filepath.Join(repo, "event_bus.go"), nil, 0)
	if err != nil {
		return err
	}
	shardMask, shardFnv, shardKeyString := false, false, false
	for _, d := range fe.Decls {
		if fd, ok := d.(*ast.FuncDecl); ok && fd.Name.Name == "getShard" && fd.Body != nil {
			ast.Inspect(fd.Body, func(n ast.Node) bool {
				switch y := n.(type) {
				case *ast.BinaryExpr:
					if y.Op == token.AND {
						if p, ok := y.Y.(*ast.ParenExpr); ok {
							if b, ok := p.X.(*ast.BinaryExpr); ok && b.Op == token.SUB && exprString(b.X) == "numShards" {
								if bl, ok := b.Y.(*ast.BasicLit); ok && bl.Value == "1" {
									shardMask = true
								}
							}
						}
					}
				case *ast.CallExpr:
					switch exprString(y.Fun) {
					case "fnv.New32a":
						shardFnv = true
					case "eventType.String":
						shardKeyString = true
					}
				}
				return true
			})
		}
	}
	// inflight.done: how waiters are woken when the count reaches zero; inflight.wait: cond.Wait inside `for c.n > 0`
	doneWake, waitRechecks := "none", false
	for _, d := range fe.Decls {
		fd, ok := d.(*ast.FuncDecl)
		if !ok || fd.Body == nil || fd.Recv == nil || len(fd.Recv.List) != 1 || !strings.HasSuffix(exprString(fd.Recv.List[0].Type), "inflight") {
			continue
		}
		switch fd.Name.Name {
		case "done":
			ast.Inspect(fd.Body, func(n ast.Node) bool {
				if c, ok := n.(*ast.CallExpr); ok {
					if sel, ok := c.Fun.(*ast.SelectorExpr); ok && (sel.Sel.Name == "Broadcast" || sel.Sel.Name == "Signal") {
						if doneWake == "none" {
							doneWake = sel.Sel.Name
						} else if doneWake != sel.Sel.Name {
							doneWake = "mixed"
						}
					}
				}
				return true
			})
		case "wait":
			ast.Inspect(fd.Body, func(n ast.Node) bool {
				if f, ok := n.(*ast.ForStmt); ok && isCountPositive(f.Cond) {
					ast.Inspect(f.Body, func(m ast.Node) bool {
						if c, ok := m.(*ast.CallExpr); ok {
							if sel, ok := c.Fun.(*ast.SelectorExpr); ok && sel.Sel.Name == "Wait" {
								waitRechecks = true
							}
						}
						return true
					})
				}
				return true
			})
		}
	}
	// SubscribeWithReplay's live handler: "read bus.lastOffset, SaveOffset" inside one critical section of a
	// mutex local to the subscription: <m>.Lock() … defer <m>.Unlock() … bus.lastOffset … SaveOffset(…)
	liveSaveSerialised := false
	for _, d := range f.Decls {
		fd, ok := d.(*ast.FuncDecl)
		if !ok || fd.Name.Name != "SubscribeWithReplay" || fd.Body == nil {
			continue
		}
		ast.Inspect(fd.Body, func(n ast.Node) bool {
			lit, ok := n.(*ast.FuncLit)
			if !ok {
				return true
			}
			var lockPos, deferPos, readPos, savePos, unlockPos token.Pos
			lockName := ""
			ast.Inspect(lit.Body, func(m ast.Node) bool {
				switch y := m.(type) {
				case *ast.DeferStmt:
					if sel, ok := y.Call.Fun.(*ast.SelectorExpr); ok && sel.Sel.Name == "Unlock" && exprString(sel.X) == lockName && lockName != "" {
						deferPos = y.Pos()
						return false
					}
				case *ast.CallExpr:
					if sel, ok := y.Fun.(*ast.SelectorExpr); ok {
						switch {
						case sel.Sel.Name == "Lock" && !strings.Contains(exprString(sel.X), "storeMu") && lockPos == 0:
							lockPos, lockName = y.Pos(), exprString(sel.X)
						case sel.Sel.Name == "Unlock" && exprString(sel.X) == lockName && unlockPos == 0:
							unlockPos = y.Pos() // an explicit (non-deferred) unlock
						case sel.Sel.Name == "SaveOffset":
							savePos = y.Pos()
						}
					}
				case *ast.SelectorExpr:
					if y.Sel.Name == "lastOffset" && readPos == 0 {
						readPos = y.Pos()
					}
				}
				return true
			})
			if savePos != 0 && readPos != 0 {
				liveSaveSerialised = lockPos != 0 && lockPos < readPos && readPos < savePos &&
					((deferPos != 0 && deferPos < readPos) || (unlockPos != 0 && unlockPos > savePos))
			}
			return true
		})
	}
	var sb strings.Builder
	sb.WriteString("/- GENERATED by /verif/go/extract; do not edit. Constants of the Go source that the models hard-code. -/\nnamespace Ebu.Generated.Consts\n\n")
	sb.WriteString(fmt.Sprintf("/-- the live handler of SubscribeWithReplay reads `bus.lastOffset` and calls `SaveOffset` inside one critical section of a per-subscription mutex -/\ndef liveSaveSerialised : Bool := %v\n\n", liveSaveSerialised))
	sb.WriteString(fmt.Sprintf("/-- `inflight.done`: the call on the condition variable when the count reaches zero; `inflight.wait`: cond.Wait() sits in `for c.n > 0` -/\ndef inflightDoneWake : String := %q\ndef inflightWaitRechecks : Bool := %v\n\n", doneWake, waitRechecks))
	sb.WriteString(fmt.Sprintf("/-- getShard: index = fnv.New32a(eventType.String()) & (numShards - 1) -/\ndef shardIndexIsMask : Bool := %v\ndef shardHashIsFnv1a32 : Bool := %v\ndef shardKeyIsTypeString : Bool := %v\n\n", shardMask, shardFnv, shardKeyString))
	sb.WriteString(fmt.Sprintf("/-- `fmt.Sprintf(%s, …)` in MemoryStore.Append -/\ndef memOffsetFormat : String := %s\ndef memOffsetWidth : Nat := %d\ndef memOffsetZeroPadded : Bool := %v\n\n", strconv.Quote(memFmt), strconv.Quote(memFmt), width, padded))
	sb.WriteString(fmt.Sprintf("/-- default `batchSize` of Replay when the configured one is <= 0 -/\ndef replayDefaultBatch : Int := %d\n\n", defBatch))
	sb.WriteString(fmt.Sprintf("def offsetOldest : String := %s\ndef offsetNewest : String := %s\n\n", strconv.Quote(oldest), strconv.Quote(newest)))
	sb.WriteString(fmt.Sprintf("/-- sqlite: strconv.FormatInt(position, base) / strconv.ParseInt(offset, base, bits) -/\ndef sqliteFormatBase : Nat := %d\ndef sqliteParseBase : Nat := %d\ndef sqliteParseBits : Nat := %d\n", fmtBase, parseBase, parseBits))
	sb.WriteString("\nend Ebu.Generated.Consts\n")
	return os.WriteFile(filepath.Join(out, "Consts.lean"), []byte(sb.String()), 0o644)
}

// ---- SQL facts of the SQLite store (C14) ----

func sqlTokens(sql string) []string {
	var toks []string
	cur := ""
	flush := func() {
		if cur != "" {
			toks = append(toks, cur)
			cur = ""
		}
	}
	for _, c := range sql {
		switch {
		case c == ' ' || c == '\n' || c == '\t' || c == '\r':
			flush()
		case strings.ContainsRune("(),=", c):
			flush()
			toks = append(toks, string(c))
		default:
			cur += string(c)
		}
	}
	flush()
	return toks
}

func leanStrList(l []string) string {
	q := make([]string, len(l))
	for i, s := range l {
		q[i] = strconv.Quote(s)
	}
	return "[" + strings.Join(q, ", ") + "]"
}

// emitSQLFacts extracts every SQL string literal of stores/sqlite/{store,schema}.go as token lists,
// keyed by where it is used: pragmas, schema statements (and whether they run inside the migration
// transaction), the prepared Append / SaveOffset statements, and how Append and SaveOffset execute.
func emitSQLFacts(repo, out string) error {
	fset := token.NewFileSet()
	var pragmas, schema, migrateTx [][]string
	var appendSQL, saveSQL []string
	var readSQLs [][]string // every SELECT over the events table, wherever it is written
	var poolCalls []string  // configuration of the database/sql pool: db.SetMaxOpenConns(…), SetConnMaxIdleTime(…), …
	appendExecs, saveExecs := 0, 0
	appendDBCalls, saveDBCalls := 0, 0
	appendResultVar, appendOffsetFromResult := "", false
	dbMethods := map[string]bool{"ExecContext": true, "QueryContext": true, "QueryRowContext": true, "Exec": true, "Query": true, "QueryRow": true,
		"Begin": true, "BeginTx": true, "Prepare": true, "PrepareContext": true, "Conn": true}
	consts := map[string]string{}
	for _, file := range []string{"stores/sqlite/schema.go", "stores/sqlite/store.go"} {
		f, err := parser.ParseFile(fset, filepath.Join(repo, file), nil, 0)
		if err != nil {
			return err
		}
		// constants
		for _, d := range f.Decls {
			if gd, ok := d.(*ast.GenDecl); ok && gd.Tok == token.CONST {
				for _, sp := range gd.Specs {
					vs := sp.(*ast.ValueSpec)
					for i, n := range vs.Names {
						if i < len(vs.Values) {
							if bl, ok := vs.Values[i].(*ast.BasicLit); ok && bl.Kind == token.STRING {
								v, _ := strconv.Unquote(bl.Value)
								consts[n.Name] = v
							}
						}
					}
				}
			}
		}
		for _, d := range f.Decls {
			fd, ok := d.(*ast.FuncDecl)
			if !ok || fd.Body == nil {
				continue
			}
			fn := fd.Name.Name
			ast.Inspect(fd.Body, func(n ast.Node) bool {
				switch x := n.(type) {
				case *ast.BasicLit:
					if x.Kind != token.STRING {
						return true
					}
					v, _ := strconv.Unquote(x.Value)
					up := strings.ToUpper(strings.TrimSpace(v))
					if strings.HasPrefix(up, "SELECT") && strings.Contains(up, "FROM EVENTS") {
						readSQLs = append(readSQLs, sqlTokens(v))
					}
					switch {
					case fn == "applyPragmas" && strings.HasPrefix(up, "PRAGMA"):
						pragmas = append(pragmas, sqlTokens(strings.ReplaceAll(v, "%d", "N")))
					case fn == "prepareStatements" && strings.HasPrefix(up, "INSERT INTO EVENTS"):
						appendSQL = sqlTokens(v)
					case fn == "prepareStatements" && strings.HasPrefix(up, "INSERT INTO SUBSCRIPTION_POSITIONS"):
						saveSQL = sqlTokens(v)
					case fn == "migrateV1" && strings.HasPrefix(up, "INSERT INTO SCHEMA_VERSION"):
						migrateTx = append(migrateTx, sqlTokens(v))
					}
				case *ast.Ident:
					if v, ok := consts[x.Name]; ok && strings.Contains(strings.ToUpper(v), "CREATE") {
						switch fn {
						case "migrateV1":
							migrateTx = append(migrateTx, sqlTokens(v))
						case "migrate":
							schema = append(schema, sqlTokens(v))
						}
					}
				case *ast.AssignStmt:
					// result, err := s.appendStmt.ExecContext(...)
					if fn == "Append" && len(x.Rhs) == 1 && len(x.Lhs) >= 1 {
						if c, ok := x.Rhs[0].(*ast.CallExpr); ok {
							if sel, ok := c.Fun.(*ast.SelectorExpr); ok && sel.Sel.Name == "ExecContext" {
								if inner, ok := sel.X.(*ast.SelectorExpr); ok && inner.Sel.Name == "appendStmt" {
									if id, ok := x.Lhs[0].(*ast.Ident); ok {
										appendResultVar = id.Name
									}
								}
							}
						}
					}
				case *ast.CallExpr:
					if sel, ok := x.Fun.(*ast.SelectorExpr); ok && (strings.HasPrefix(sel.Sel.Name, "SetMax") || strings.HasPrefix(sel.Sel.Name, "SetConnMax")) {
						poolCalls = append(poolCalls, sel.Sel.Name)
					}
					if sel, ok := x.Fun.(*ast.SelectorExpr); ok && dbMethods[sel.Sel.Name] {
						if fn == "Append" {
							appendDBCalls++
						}
						if fn == "SaveOffset" {
							saveDBCalls++
						}
					}
					if sel, ok := x.Fun.(*ast.SelectorExpr); ok && sel.Sel.Name == "LastInsertId" && fn == "Append" {
						if id, ok := sel.X.(*ast.Ident); ok && appendResultVar != "" && appendResultVar != "_" && id.Name == appendResultVar {
							appendOffsetFromResult = true
						}
					}
					if sel, ok := x.Fun.(*ast.SelectorExpr); ok && sel.Sel.Name == "ExecContext" {
						if inner, ok := sel.X.(*ast.SelectorExpr); ok {
							if fn == "Append" && inner.Sel.Name == "appendStmt" {
								appendExecs++
							}
							if fn == "SaveOffset" && inner.Sel.Name == "saveOffsetStmt" {
								saveExecs++
							}
						}
					}
				}
				return true
			})
		}
	}
	var sb strings.Builder
	sb.WriteString("/- GENERATED by /verif/go/extract from stores/sqlite/{store,schema}.go; do not edit. SQL text as token lists. -/\nnamespace Ebu.Generated.Sql\n\n")
	list2 := func(name string, ll [][]string) {
		sb.WriteString("def " + name + " : List (List String) := [\n")
		for i, l := range ll {
			sep := ","
			if i == len(ll)-1 {
				sep = ""
			}
			sb.WriteString("  " + leanStrList(l) + sep + "\n")
		}
		sb.WriteString("]\n\n")
	}
	list2("pragmas", pragmas)
	list2("migrateOutsideTx", schema)
	list2("migrateInTx", migrateTx)
	list2("readSqls", readSQLs)
	sb.WriteString("/-- calls that constrain the connection pool (none: connections are opened as needed and kept) -/\ndef poolCalls : List String := " + leanStrList(poolCalls) + "\n\n")
	sb.WriteString("def appendSql : List String := " + leanStrList(appendSQL) + "\n\n")
	sb.WriteString("def saveOffsetSql : List String := " + leanStrList(saveSQL) + "\n\n")
	sb.WriteString(fmt.Sprintf("/-- number of statement executions in `Append` / `SaveOffset` (each must be exactly one prepared statement) -/\ndef appendExecs : Nat := %d\ndef saveOffsetExecs : Nat := %d\n", appendExecs, saveExecs))
	sb.WriteString(fmt.Sprintf("\n/-- all database round trips (Exec/Query/QueryRow/Begin/Prepare/Conn calls) in `Append` / `SaveOffset` -/\ndef appendDbCalls : Nat := %d\ndef saveOffsetDbCalls : Nat := %d\n", appendDBCalls, saveDBCalls))
	sb.WriteString(fmt.Sprintf("\n/-- the offset `Append` acknowledges is `LastInsertId()` of the result of that very INSERT (same statement, same connection) -/\ndef appendOffsetFromInsertResult : Bool := %v\n", appendOffsetFromResult))
	sb.WriteString("\nend Ebu.Generated.Sql\n")
	return os.WriteFile(filepath.Join(out, "SqlFacts.lean"), []byte(sb.String()), 0o644)
}

type callSites struct {
	helpers  map[string]map[string]string
	recvFile string
}

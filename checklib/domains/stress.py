"""Domain 'stress': implementation-side judges under real concurrency (go/harness/stress.go), one scenario per
concurrency property; they search for a concrete failing history inside single API calls, where the controlled
scheduler of the 'conc' domain cannot put a yield point."""
def corpus_cases(prop, part):
    return []

def out_kind(line):
    return line.split(" ", 1)[0]

def make_gen(scenario):
    def gen(rng, tier, n):
        rounds = 60 if tier == "quick" else 150      # many short cases rather than few long ones (per-case watchdog)
        if scenario == "seqcancel":
            rounds = 6 if tier == "quick" else 20    # (each round waits for a publisher to reach the handler's lock)
        if scenario == "seqburst":
            rounds = 3000 if tier == "quick" else 10000   # (a burst takes ~0.1 ms; the window it looks for is a few instructions wide)
        return [["%s %d %d" % (scenario, rng.randrange(1 << 30), rounds)] for _ in range(n)]
    return gen

def nontrivial(prop, lines, impl):
    return bool(impl) and all(l.endswith(" ok") for l in impl)

def property_fails(prop, lines, impl, model):
    a, b = impl or ["<none>"], model or ["<none>"]
    if a == b:
        return None
    for x, y in zip(a + ["<missing>"] * len(b), b + ["<missing>"] * len(a)):
        if x != y:
            return "%s|under real concurrency: %s" % (x.split(" ")[0], x)
    return "diff"


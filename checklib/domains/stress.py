"""Domain 'stress': implementation-side judges under real concurrency (go/harness/stress.go), one scenario per
concurrency property; they search for a concrete failing history inside single API calls, where the controlled
scheduler of the 'conc' domain cannot put a yield point."""
def corpus_cases(prop, part):
    return []

def out_kind(line):
    return line.split(" ", 1)[0]

def make_gen(scenario):
    def gen(rng, tier, n):
        rounds = 60 if tier == "quick" else 150      # many short cases rather than few long ones (per-case watchdog)
        return [["%s %d %d" % (scenario, rng.randrange(1 << 30), rounds)] for _ in range(n)]
    return gen

def nontrivial(prop, lines, impl):
    return bool(impl) and all(l.endswith(" ok") for l in impl)

def property_fails(prop, lines, impl, model):
    a, b = impl or ["<none>"], model or ["<none>"]
    if a == b:
        return None
    for x, y in zip(a + ["<missing>"] * len(b), b + ["<missing>"] * len(a)):
        if x != y:
            return "%s|under real concurrency: %s" % (x.split(" ")[0], x)
    return "diff"


def known_c08(prop, known):
    """witness replay of the recorded finding (never matched against divergences)"""
    from ..common import HARNESS, goenv
    from .. import corr
    out = []
    ids = {k.get("id") for k in known if k.get("property") == prop and k.get("status") == "known"}
    if "C08-sequential-wait-outlives-cancellation" in ids:
        (tr,) = corr.run_binary([HARNESS, "stress"], [["seqcancel 0 0"]], 60, goenv())
        if tr and tr[0] == "seqcancel started-after-cancel=1":
            out.append("KNOWN-FINDING: property=C08 a synchronous Sequential handler whose publisher was waiting for the handler's mutex when the publish context was cancelled is started all the same (the context check precedes the wait)")
    return out

"""Domain 'bus' (M1, sequential bus machine): generators and property projections."""
import glob, os
from ..common import CORPUS

NTYPES = 47
CANCELLING_FILTERS = True       # Reg.filtCancels in the model (M1)

def fnv1a(s):
    h = 2166136261
    for b in s.encode():
        h = ((h ^ b) * 16777619) % (1 << 32)
    return h

def go_type_name(t):
    return {40: "json.RawMessage", 41: "*main.T41", 42: "main.U02", 43: "main.U03", 44: "main.U04", 45: "main.U05", 46: "main.G46[main.gItem]"}.get(t, "main.T%02d" % t)

SHARD = {t: fnv1a(go_type_name(t)) % 32 for t in range(NTYPES)}

def colliding_groups():
    g = {}
    for t, s in SHARD.items():
        g.setdefault(s, []).append(t)
    return [v for v in g.values() if len(v) > 1]

COLL = colliding_groups()

def corpus_cases(prop, part):
    out = []
    for p in sorted(glob.glob(os.path.join(CORPUS, "bus", "*.case"))):
        out.append([l.strip() for l in open(p) if l.strip() and not l.startswith("//")])
    return out

def out_kind(line):
    w = line.split()
    if not w:
        return "empty"
    if w[0] in ("hook", "obs"):
        return w[0] + ":" + w[2]
    if w[0] == "enter":
        return "enter:" + ("async" if w[-1] == "1" else "sync") + (":d%s" % w[1])
    return w[0]

class Gen:
    def __init__(self, rng, focus):
        self.rng = rng
        self.focus = focus
        r = rng
        # pick a small set of types, biased to types sharing a shard
        grp = r.choice(COLL)
        self.types = list(dict.fromkeys(grp[:2] + [r.randrange(NTYPES) for _ in range(r.randint(0, 2))]))
        if focus in ("C09", "C13", "C20") or r.random() < 0.3:
            self.types.append(r.randrange(30, 40))    # a TypeNamer type whose name depends on the value
        if r.random() < 0.15:
            self.types.append(46)     # the generic type (its name has a '[' before its last '.')
        if r.random() < 0.2:
            # the first and the last shard (loops over the shard array start and end there)
            self.types.append(r.choice([t for t, sh in SHARD.items() if sh in (0, 31)]))
        if r.random() < 0.35:
            self.types.append(r.choice([40, 41, 46]))     # the pre-encoded document type / published as a pointer / generic
        self.types = list(dict.fromkeys(self.types))
        self.nbodies = r.randint(2, 6)
        self.leaf_type = self.types[-1]       # its handlers only get leaf bodies; body number `nbodies` publishes to it

    def ty(self):
        return self.rng.choice(self.types)

    def filt(self):
        r = self.rng
        if r.random() < 0.35:
            m = r.choice([2, 3])
            # "m:r:c": the filter also cancels the context of the publish it is evaluated for (user code running between
            # the cancellation check and the handler start)
            c = ":c" if CANCELLING_FILTERS and r.random() < (0.35 if self.focus in ("C08", "C04") else 0.1) else ""
            return "%d:%d%s" % (m, r.randrange(m), c)
        return "-"

    def sub(self, in_body=False, ty=None):
        r = self.rng
        once = 1 if r.random() < (0.45 if self.focus in ("C04",) else (0.35 if self.focus == "C01" else 0.25)) else 0
        asy = 1 if r.random() < (0.65 if self.focus == "C06" else 0.25) else 0
        seq = 1 if r.random() < ({"C07": 0.7, "C03": 0.5}.get(self.focus, 0.2)) else 0
        hid = r.randrange(12) if r.random() < 0.5 else r.choice([0, 1, 6, 7])
        body = r.randrange(self.nbodies)
        if in_body:
            # a handler subscribed from inside a handler gets a leaf body (no publish, no subscribe): otherwise bodies that
            # subscribe handlers with their own body and publish to them double the work with every delivery
            body = r.randrange(2)
        if seq and not asy:
            # a sync Sequential handler must not re-enter itself: leaf bodies, or the body that only publishes to the
            # leaf type (whose handlers all have leaf bodies, so nothing comes back)
            body = r.randrange(2)
            if ty is None and r.random() < 0.4:
                body = self.nbodies
        t = self.ty() if ty is None else ty
        if t == self.leaf_type:
            body = r.randrange(2)      # handlers of the leaf type never publish
        return "sub %d %d %d %d %d %s %d" % (t, hid, once, asy, seq, self.filt(), body)

    def pub(self, in_body=False):
        r = self.rng
        x = r.random()
        if in_body:
            sel = "inherit" if x < 0.4 else ("bg" if x < 0.7 else ("fresh" if x < 0.9 else "dead"))
        else:
            dead_p = 0.3 if self.focus in ("C04", "C08") else 0.1
            sel = "dead" if x < dead_p else ("fresh" if x < 0.55 else "bg")
        bad = 1 if r.random() < (0.2 if self.focus in ("C13", "C09") else 0.04) else 0
        return "pub %d %d %d %s" % (self.ty(), r.randrange(12), bad, sel)

    def body_action(self, leaf):
        r = self.rng
        x = r.random()
        if r.random() < 0.08:
            # a net-zero edit of one type's registrations from inside a delivery: swap a handler for another
            t = self.ty()
            return "unsub %d %d ; %s" % (t, r.choice([0, 1, 6, 7, r.randrange(12)]), self.sub(True, ty=t))
        if r.random() < 0.03:
            return "subnil %d %d" % (self.ty(), r.randrange(12))
        if x < 0.12:
            return "panic %d" % r.randrange(1, 9) if r.random() < (0.9 if self.focus in ("C05", "C07") else 0.5) else "count %d" % self.ty()
        if x < 0.30 and not leaf:
            return self.pub(True)
        if x < 0.45:
            return self.sub(True)
        if x < 0.58:
            return "unsub %d %d" % (self.ty(), r.choice([0, 1, 6, 7, r.randrange(12)]))
        if x < 0.64:
            return "clear %d" % self.ty()
        if x < 0.67:
            return "clearall"
        if x < 0.78:
            return "cancel"
        if x < 0.86:
            return "count %d" % self.ty()
        if x < 0.92:
            return "has %d" % self.ty()
        if x < 0.97:
            return "readlog"
        return "cancelid %d" % r.randrange(1, 5)

    def case(self):
        r = self.rng
        lines = []
        opts = []
        pool = ["bl", "bc", "al", "ac", "panich", "perrh", "obs"]
        p_store = {"C09": 1.0, "C13": 1.0, "C20": 0.7, "C06": 0.7}.get(self.focus, 0.35)
        for o in pool:
            p = 0.5
            if self.focus == "C20" and o == "obs": p = 1.0
            if self.focus == "C05" and o == "panich": p = 0.8
            if self.focus == "C13" and o == "perrh": p = 0.8
            if self.focus in ("C01", "C04") and o == "obs": p = 0.35
            if r.random() < p:
                opts.append(o)
        if r.random() < p_store:
            opts.append("store1")
            if r.random() < (0.3 if self.focus == "C09" else 0.05):
                opts.append(r.choice(["store2", "store1"]))
        pt = any(o.startswith("store") for o in opts) and r.random() < (0.5 if self.focus in ("C13", "C20", "C06") else 0.15)
        if pt:
            opts.append("ptimeout")
        if "obs" in opts and r.random() < {"C20": 0.4, "C08": 0.5, "C06": 0.3, "C04": 0.5, "C01": 0.3, "C05": 0.3}.get(self.focus, 0.0):
            # the real OpenTelemetry implementation over the SDK recorders; "otelns": over a tracer that samples nothing
            opts[opts.index("obs")] = "otel" if r.random() < 0.7 else "otelns"
            if r.random() < 0.4:
                self.types.append(r.choice([0, 45]))      # event types that implement otel.SpanAttributer
        otel_store = any(o in ("otel", "otelns") for o in opts) and any(o.startswith("store") for o in opts)
        if otel_store and self.focus == "C20" and not pt and r.random() < 0.6:
            pt = True; opts.append("ptimeout")      # appends that fail with the context's error under the OpenTelemetry adapter
        r.shuffle(opts)
        lines.append("opts " + " ".join(opts))
        if any(o.startswith("store") for o in opts) and r.random() < (0.8 if self.focus == "C13" or (otel_store and self.focus == "C20") else 0.3):
            lines.append("faults " + " ".join(str((2 if pt and r.random() < 0.3 else 1) if r.random() < 0.35 else 0) for _ in range(r.randint(1, 10))))
        for b in range(self.nbodies):
            leaf = b < 2
            acts = [self.body_action(leaf) for _ in range(r.randint(0, 4 if not leaf else 2))]
            lines.append("body %d = %s" % (b, " ; ".join(acts)))
        lines.append("body %d = pub %d %d 0 bg ; count %d" % (self.nbodies, self.leaf_type, r.randrange(12), self.leaf_type))
        if self.focus in ("C01", "C04", "C05") and r.random() < 0.2:
            # a once handler whose body swaps one registration of its own type for another (net-zero edit of the
            # registry while the publish that fires it is being delivered), placed among the random actions below
            t = self.types[0]; ha, hb, hc = r.sample(range(12), 3); b = self.nbodies - 1
            bi = next(i for i, l in enumerate(lines) if l.startswith("body %d = " % b))
            lines[bi] = "body %d = unsub %d %d ; sub %d %d 0 0 0 - 0" % (b, t, ha, t, hb)
            pre = ["sub %d %d 0 0 0 - %d" % (t, ha, r.randrange(2)), "sub %d %d 1 0 0 - %d" % (t, hc, b)]
            r.shuffle(pre)
            lines += pre + ["pub %d %d 0 bg" % (t, r.randrange(12)), "count %d" % t, "pub %d %d 0 bg" % (t, r.randrange(12))]
        if r.random() < 0.25:
            # the last registration of a type goes away by Unsubscribe: queries must say "none" afterwards, and a later
            # subscription is found again
            t = self.ty(); h = r.choice([0, 1, 6, 7, r.randrange(12)])
            lines += ["clear %d" % t, "sub %d %d 0 0 0 - %d" % (t, h, r.randrange(2)), "unsub %d %d" % (t, h), "has %d" % t, "count %d" % t,
                      "pub %d %d 0 bg" % (t, r.randrange(12))]
        n = r.randint(4, 28)
        for i in range(n):
            x = r.random()
            if x < 0.38:
                lines.append(self.sub())
            elif x < 0.72:
                lines.append(self.pub())
            elif x < 0.78:
                lines.append("unsub %d %d" % (self.ty(), r.choice([0, 1, 6, 7, r.randrange(12)])))
            elif x < 0.81:
                lines.append("clear %d" % self.ty())
            elif x < 0.83:
                lines.append("clearall")
            elif x < 0.88:
                lines.append("count %d" % self.ty())
            elif x < 0.91:
                lines.append("has %d" % self.ty())
            elif x < 0.95:
                lines.append("wait" if r.random() < 0.4 else "drain")
            elif x < 0.965 and self.focus in ("C05", "C01", "C13", "C08", "C09"):
                lines.append({"C05": "setpanich %d", "C01": "setpanich %d", "C13": "setperrh %d", "C09": "setperrh %d",
                              "C08": r.choice(["sethook bl %d", "sethook al %d"])}[self.focus] % r.randrange(2))
            elif x < 0.972:
                lines.append("subnil %d %d" % (self.ty(), r.randrange(12)))
            elif x < 0.98:
                lines.append("cancelid %d" % r.randrange(1, 6))
            else:
                lines.append("readlog")
        lines.append("wait")
        for t in self.types:
            lines.append("count %d" % t)
        lines.append("readlog")
        return lines

def make_gen(focus):
    def gen(rng, tier, n):
        return [Gen(rng, focus).case() for _ in range(n)]
    return gen

PROJ = {
    "C01": ("enter", "exit", "filt", "has", "count", "unsub"),
    "C04": ("enter", "count", "filt"),
    "C05": ("enter", "exit", "panich", "count"),
    "C03": ("enter", "exit", "has", "count", "unsub"),
    "C06": ("enter", "exit"),
    "C07": ("enter", "exit"),
    "C08": ("enter", "exit", "hook"),
    "C09": ("append", "log", "enter"),
    "C13": ("append", "perr", "log", "enter", "exit"),
    "C20": ("obs", "otel", "otelns", "enter", "exit"),
}

def _proj(prop, out):
    if out is None:
        return ["<none>"]
    keep = PROJ.get(prop, ())
    return [l for l in out if l.startswith("!") or l.split(" ", 1)[0] in keep]

def property_fails(prop, lines, impl, model):
    a, b = _proj(prop, impl), _proj(prop, model)
    if a == b:
        return None
    for i in range(max(len(a), len(b))):
        x = a[i] if i < len(a) else "<missing>"
        y = b[i] if i < len(b) else "<missing>"
        if x != y:
            return "%s|implementation: %r  required by the proved model: %r (position %d of the property's observables)" % (x.split(" ")[0], x, y, i)
    return "diff"

def nontrivial(prop, lines, impl):
    if not impl:
        return False
    enters = [l for l in impl if l.startswith("enter")]
    if prop == "C01":
        return len(enters) >= 2 and any(l.split()[1] != "0" and not l.startswith(("enter", "exit")) for l in impl if l.split()[0] in ("count", "has", "unsub", "filt", "enter"))
    if prop == "C04":
        return any(" 1 " in l[8:] for l in lines if l.startswith("sub ")) and any(l.startswith("pub") and l.endswith("dead") for l in lines) and len(enters) >= 1
    if prop == "C05":
        return any(l.startswith("panich") for l in impl) or (any("panic" in l for l in lines) and len(enters) >= 2)
    if prop == "C06":
        return sum(1 for l in enters if l.endswith(" 1")) >= 2
    if prop == "C07":
        return any(l.startswith("sub ") and l.split()[5] == "1" for l in lines) and len(enters) >= 2
    if prop == "C08":
        return any(l.startswith("hook") for l in impl) and len(enters) >= 1 and any("cancel" in l or "dead" in l for l in lines)
    if prop == "C09":
        return any(l.startswith("append") for l in impl) and len(enters) >= 1
    if prop == "C13":
        return any(l.startswith("append") and l.split()[5] == "0" for l in impl) or any(l.startswith("perr") for l in impl)
    if prop == "C20":
        return sum(1 for l in impl if l.startswith("obs")) >= 6 or any(l.startswith("otel ") and "started=0" not in l for l in impl)
    return len(enters) >= 1

def protect(line):
    return line.split(" ", 1)[0] in ("opts", "faults", "body", "maxdepth")

"""Domain 'conc' (M2, interleaving model): the model picks a schedule (seeded), the harness forces
the real goroutines through it; both print what every step makes observable."""
import glob, os
from ..common import CORPUS, HARNESS, DRIVER, goenv
from .. import corr

def corpus_cases(prop, part):
    out = []
    for p in sorted(glob.glob(os.path.join(CORPUS, "conc", "*.case"))):
        out.append([l.strip() for l in open(p) if l.strip() and not l.startswith("//")])
    return out

def out_kind(line):
    w = line.split()
    if not w:
        return "empty"
    if w[0] in ("step", "fstep") and len(w) > 2:
        return "step:" + w[2].split("=")[1].split(":")[0]
    return w[0]

def run_cases(cases, part, timeout=600, jobs=8, chunk=32):
    """two phases: model first (it chooses the schedule), then the implementation under that schedule"""
    import concurrent.futures as cf
    chunks = [cases[i:i + chunk] for i in range(0, len(cases), chunk)]
    def one(ch):
        model = corr.run_binary([DRIVER, "conc"], ch, timeout)
        hc = []
        for lines, mo in zip(ch, model):
            sched = ["sched " + l for l in (mo or []) if l.startswith(("step ", "fstep ", "probe "))]
            hc.append(list(lines) + [" ".join(s.split()[:3]) for s in sched])
        impl = corr.run_binary([HARNESS, "conc"], hc, timeout, goenv())
        return list(zip(impl, model))
    out = []
    with cf.ThreadPoolExecutor(max_workers=jobs) as ex:
        for r in ex.map(one, chunks):
            out.extend(r)
    return out

def sub(rng, ty, leaf=False, focus=None):
    once = 1 if rng.random() < (0.5 if focus == "C04" else 0.25) else 0
    asy = 1 if rng.random() < (0.6 if focus in ("C06", "C07") else 0.35) else 0
    seq = 1 if rng.random() < (0.6 if focus == "C07" else 0.3) else 0
    filt = "-"
    if rng.random() < 0.3:
        m = rng.choice([2, 3]); filt = "%d:%d" % (m, rng.randrange(m))
    body = "-"
    if not leaf and rng.random() < (0.4 if focus == "C06" else 0.2):
        body = ",".join("9:%d" % rng.randrange(10) for _ in range(rng.randint(1, 2)))
    return "sub %d %d %d %d %d %s %s" % (ty, rng.randrange(4), once, asy, seq, filt, body)

def gen_case(rng, tier, focus):
    lines = ["seed %d" % rng.randrange(1 << 30), "probe %d" % rng.choice([0, 10, 25, 40])]
    nthreads = rng.randint(2, 4)
    types = [1, 2] if rng.random() < 0.4 else [1]
    # a setup thread 0 part: some subscriptions happen first in thread 0's program
    for t in range(nthreads):
        lines.append("thread")
        nops = rng.randint(2, 6)
        for i in range(nops):
            x = rng.random()
            ty = rng.choice(types)
            if t == 0 and i < 2:
                lines.append(sub(rng, ty, focus=focus))
            elif x < 0.25:
                lines.append(sub(rng, rng.choice(types + [9]), leaf=False, focus=focus) if rng.random() < 0.8 else sub(rng, 9, leaf=True, focus=focus))
            elif x < 0.60:
                ctx = "bg" if rng.random() < 0.7 else str(rng.randint(1, 2))
                lines.append("pub %d %d %s" % (ty, rng.randrange(10), ctx))
            elif x < 0.70:
                lines.append("unsub %d %d" % (ty, rng.randrange(4)))
            elif x < 0.75:
                # also a type nobody subscribed to that lives in the same registry shard (CT1 and CT36 collide)
                lines.append("clear %d" % rng.choice([ty, 1, 2]))
            elif x < 0.82:
                lines.append("cancel %d" % rng.randint(1, 2))
            elif x < 0.92:
                lines.append("wait")
            else:
                lines.append("count %d" % ty)
        if t == nthreads - 1:
            lines.append("wait")
            for ty in types:
                lines.append("count %d" % ty)
    # handlers of the leaf type 9 must not publish: rewrite bodies of `sub 9 …`
    fixed = []
    for l in lines:
        w = l.split()
        if w[0] == "sub" and w[1] == "9":
            w[7] = "-"
            l = " ".join(w)
        fixed.append(l)
    return fixed

def make_gen(focus):
    def gen(rng, tier, n):
        return [gen_case(rng, tier, focus) for _ in range(n)]
    return gen

def nontrivial(prop, lines, impl):
    if not impl:
        return False
    tids = {l.split()[1] for l in impl if l.startswith(("step ", "fstep "))}
    enters = sum(1 for l in impl if " enter:" in l)
    if prop == "C06":
        return any("new:" in l for l in impl) and any(l.startswith("probe") or " fin" in l for l in impl)
    if prop == "C07":
        return any(" at=lock" in l or " at=turn" in l for l in impl)
    if prop == "C04":
        return any(" at=claimed" in l for l in impl)
    return len(tids) >= 2 and enters >= 1

def property_fails(prop, lines, impl, model):
    a, b = impl or ["<none>"], model or ["<none>"]
    if a == b:
        return None
    for i in range(max(len(a), len(b))):
        x = a[i] if i < len(a) else "<missing>"
        y = b[i] if i < len(b) else "<missing>"
        if x != y:
            return "%s|under the schedule chosen by the model, step %d: implementation %r, model %r" % (x.split(" ")[0], i, x, y)
    return "diff"

def protect(line):
    return line.split(" ", 1)[0] in ("seed", "probe", "thread")

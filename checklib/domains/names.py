"""Domain 'names' (M8): every shape of event type x every route that derives a type name (C15). The table is finite: exhaustive."""
def corpus_cases(prop, part):
    return []

def out_kind(line):
    return " ".join(w for w in line.split() if w.startswith(("replayed=", "upfrom=")))

def gen(rng, tier, n):
    cases = [["shape %d" % k] for k in range(20)]
    for _ in range(3):
        order = list(range(20)); rng.shuffle(order)
        cases.append(["shape %d" % k for k in order])
    return cases

def nontrivial(prop, lines, impl):
    return bool(impl) and any("replayed=1" in l for l in impl)

def property_fails(prop, lines, impl, model):
    a, b = impl or ["<none>"], model or ["<none>"]
    if a == b:
        return None
    for x, y in zip(a + ["<missing>"] * len(b), b + ["<missing>"] * len(a)):
        if x != y:
            return "%s|implementation: %r  required by the model: %r" % (" ".join(x.split()[:2]), x, y)
    return "diff"

"""Domain 'resume' (M5): SubscribeWithReplay across restarts, crashes and store faults (C12)."""
import glob, os
from ..common import CORPUS, HARNESS, goenv
from .. import corr

def corpus_cases(prop, part):
    out = []
    for p in sorted(glob.glob(os.path.join(CORPUS, "resume", "*.case"))):
        out.append([l.strip() for l in open(p) if l.strip() and not l.startswith("//")])
    return out

def out_kind(line):
    w = line.split()
    return " ".join(w[:2]) if w and w[0] == "sub" else (w[0] if w else "empty")

def gen(rng, tier, n):
    cases = []
    for _ in range(n):
        kind = rng.choice(["mem", "mem", "sqlite", "paged"])     # paged: no ReadStream, pages of at most 2 events
        if rng.random() < 0.3:                                     # offsets in an explicit SubscriptionStore of their own,
            kind += rng.choice(["+sub", "+bus"])                   # given after / before WithStore
        lines = ["kind %s" % kind]
        nops_guess = rng.randint(5, 40)
        x = rng.random()
        fail = crash = "-"
        if x < 0.35:
            crash = str(rng.randint(1, nops_guess))
        elif x < 0.65:
            fail = str(rng.randint(1, nops_guess))
        elif x < 0.75:
            fail = str(rng.randint(1, nops_guess)); crash = str(rng.randint(1, nops_guess))
        lines.append("plan %s %s" % (fail, crash))
        ids = {1: rng.randint(1, 3), 2: rng.randint(1, 3)}        # each id always subscribes the same type
        live = set()
        rec = 1
        for _ in range(rng.randint(4, 22)):
            y = rng.random()
            if y < 0.5:
                lines.append("pub %d %d" % (rng.randint(1, 3), rec)); rec += 1
            elif y < 0.8:
                cand = [i for i in ids if i not in live]
                if cand:
                    i = rng.choice(cand)
                    pd = "-"
                    if rng.random() < 0.12 and not kind.startswith("paged"):   # (a paged replay sees what is appended meanwhile: another model)
                        pd = "%d:%d" % (rng.randint(1, 3), 900 + rec); rec += 1
                    lines.append("sub %d %d %s" % (i, ids[i], pd))
                    live.add(i)       # (if it fails the generator may try again only after a restart; fine)
            else:
                lines.append("restart"); live = set()
        # final: restart and resubscribe everything, so that coverage is complete at the end
        lines.append("restart")
        for i in ids:
            lines.append("sub %d %d -" % (i, ids[i]))
        cases.append(lines)
    # concurrent publishers with a live resumable subscription (implementation-side judge)
    for _ in range(4 if tier == "quick" else 40):
        cases.append(["kind mem", "plan - -", "racepub %d %d" % (rng.randint(2, 8), rng.choice([100, 300]))])
    # a catch-up over the real SQLite store whose context is cancelled inside a page (implementation-side judge)
    for _ in range(6 if tier == "quick" else 60):
        n = rng.randint(4, 14)
        cases.append(["kind mem", "plan - -", "cancelresume %d %d %d" % (rng.choice([0, 2, 3, 5, 5, 8]), n, rng.randint(1, n))])
    for _ in range(4 if tier == "quick" else 40):
        n = rng.randint(2, 9)
        cases.append(["kind mem", "plan - -", "panicresume %s %d %d" % (rng.choice(["mem", "sqlite"]), n, rng.randint(1, n))])
    for _ in range(4 if tier == "quick" else 40):
        cases.append(["kind mem", "plan - -", "livechain %s %d %d" % (rng.choice(["mem", "mem", "sqlite"]), rng.randint(2, 9), rng.randint(0, 1))])
    return cases

def gen_livechain(rng, tier, n):
    """handlers of resumable subscriptions that publish while handling a live event (C03: callbacks may re-enter the bus)"""
    return [["kind mem", "plan - -", "livechain %s %d %d" % (rng.choice(["mem", "mem", "sqlite"]), rng.randint(2, 9), rng.randint(0, 1))] for _ in range(n)]

def gen_livepanic(rng, tier, n):
    """the handler of a resumable subscription panics on a live event (C05: contained, the bus stays usable)"""
    out = []
    for _ in range(n):
        m = rng.randint(1, 7)
        out.append(["kind mem", "plan - -", "livepanic %s %d %d %d" % (rng.choice(["mem", "mem", "sqlite"]), m, rng.randint(1, m), rng.randint(0, 1))])
    return out

def gen_racepub(rng, tier, n):
    return [["kind mem", "plan - -", "racepub %d %d" % (rng.randint(2, 8), rng.choice([100, 300]))] for _ in range(n)]

def nontrivial(prop, lines, impl):
    if prop == "C09" or any(l.startswith("racepub") for l in lines):
        return bool(impl) and impl[0] == "racepub ok"
    if any(l.startswith("cancelresume") for l in lines):
        return bool(impl) and impl[0] == "cancelresume ok"
    if any(l.startswith("panicresume") for l in lines):
        return bool(impl) and impl[0] == "panicresume ok"
    if any(l.startswith("livechain") for l in lines):
        return bool(impl) and impl[0] == "livechain ok"
    if any(l.startswith("livepanic") for l in lines):
        return bool(impl) and impl[0] == "livepanic ok"
    return bool(impl) and any(l.startswith("id ") and "delivered=-" not in l for l in impl) and any(l == "restart" for l in lines[:-3])

def property_fails(prop, lines, impl, model):
    a, b = impl or ["<none>"], model or ["<none>"]
    if a == b:
        return None
    for i in range(max(len(a), len(b))):
        x = a[i] if i < len(a) else "<missing>"
        y = b[i] if i < len(b) else "<missing>"
        if x != y:
            return "%s|implementation: %r  required by the model: %r" % (x.split(" ")[0], x, y)
    return "diff"

def protect(line):
    return line.split(" ", 1)[0] in ("kind", "plan")

def known_c12(prop, known):
    out = []
    ids = {k.get("id") for k in known if k.get("property") == prop and k.get("status") == "known"}
    if "C12-publish-during-replay-lost" in ids:
        (tr,) = corr.run_binary([HARNESS, "resume"], [["kind mem", "plan - -", "pub 1 1", "sub 7 1 1:9", "pub 1 5", "restart", "sub 7 1 -"]], 60, goenv())
        idl = [l for l in tr if l.startswith("id 7")]
        if idl and "delivered=1,5" in idl[0] and any(l.startswith("log") and "1:9" in l for l in tr):
            out.append("KNOWN-FINDING: property=C12 an event published while SubscribeWithReplay is running (here: by the handler during the replay) is persisted but never delivered to that subscription, not even after a restart")
    if "C12-sqlite-subscription-store-rewrites-foreign-offsets" in ids:
        (tr,) = corr.run_binary([HARNESS, "resume"], [["kind mem+sqlsub", "plan - -", "pub 1 1", "pub 1 2", "pub 1 3", "sub 7 1 -", "restart", "pub 1 4", "pub 1 5", "restart", "sub 7 1 -"]], 60, goenv())
        idl = [l for l in tr if l.startswith("id 7")]
        if idl and "saved=3 " in idl[0] and idl[0].endswith("delivered=1,2,3"):
            out.append("KNOWN-FINDING: property=C12 events in a MemoryStore, positions in the SQLite store (WithSubscriptionStore): the saved offset comes back as \"3\" instead of \"00000000000000000003\" and the two events published while the subscriber was away are never delivered")
    return out

"""C03: no correspondence domain – the tie to the source is the regenerated fact table. This module
holds the witness hunter (race-detector stress run) used as supporting validation and as the search
for a concrete failing input when a lock-discipline obligation breaks."""
import os, re
from ..common import BUILD, goenv, run, rng_for
from .. import build

def race_stress(prop, tier, seed, proof_broken):
    """returns (violations, coverage): violations = list of (payload, no_failing_input, text)"""
    secs = 2 if tier == "quick" else 25
    if proof_broken:
        secs = max(secs, 20)          # search phase: an obligation broke, look harder for a witness
    ok, msg = build.build_racestress()
    if not ok:
        return [({"what": "the race-stress program no longer builds against /repo", "output": msg}, True, "racestress build failed")], {}
    viol, runs, ops = [], 0, 0
    for k in range(1 if not proof_broken else 3):
        rc, so, se = run([build.RACESTRESS, "-d", "%ds" % secs, "-seed", str(seed + k)], env=dict(goenv(), GORACE="halt_on_error=1"), timeout=secs + 120)
        runs += 1
        text = so + se
        m = re.search(r"STRESS ok operations=(\d+)", text)
        if m:
            ops += int(m.group(1))
        if "DATA RACE" in text:
            i = text.index("WARNING: DATA RACE")
            viol.append(({"what": "the Go race detector reports a data race under the public-API stress mix", "command": "racestress -race, seed %d" % (seed + k), "report": text[i:i + 6000]}, False, "data race: " + " / ".join(re.findall(r"(?:Read|Write|Previous write|Previous read) at .* by goroutine \d+:\n\s+(\S+)", text)[:4])))
            break
        if "STRESS DEADLOCK" in text or rc == -9 or "all goroutines are asleep" in text:
            viol.append(({"what": "the stress mix stopped making progress (deadlock)", "report": text[-6000:]}, False, "deadlock under the stress mix"))
            break
        if rc != 0 and "STRESS ok" not in text:
            viol.append(({"what": "the stress mix crashed", "report": text[-6000:]}, False, "crash under the stress mix: " + text.strip().splitlines()[0][:200] if text.strip() else "crash"))
            break
    cov = {"race_stress_runs": runs, "race_stress_seconds_each": secs, "race_stress_operations": ops,
           "evaluations": max(ops, 1), "distinct_nontrivial": 2 if ops > 1000 else 0,
           "rule": "witness hunter: 19 goroutines (three of them in Wait at the same time) mixing every public call of bus, stores, upcast registry and materializer (re-entrant calls from handlers, filters, hooks) under the race detector with a progress watchdog; counts are operations completed (distinct_nontrivial is not measurable per operation: reported as 2 when the mix ran)",
           "samples": [{"stress": "racestress -d %ds -seed %d" % (secs, seed), "operations": ops}]}
    return viol, cov

"""Domain 'upcast' (M6): generators and property projections for C16 / C17."""
import glob, itertools, os
from ..common import CORPUS

def corpus_cases(prop, part):
    out = []
    for p in sorted(glob.glob(os.path.join(CORPUS, "upcast", "*.case"))):
        out.append([l.strip() for l in open(p) if l.strip() and not l.startswith("//")])
    return out

def out_kind(line):
    w = line.split()
    if not w:
        return "empty"
    if w[0] == "reg":
        return " ".join(w[:3])
    if w[0] == "seen":
        return "seen" + ("+errh" if not line.endswith("errh=-") else "") + ("+calls" if "calls=-" not in line else "")
    return w[0]

def _reg(rng, names, p_raw_lie=0.25, p_fail=0.15, tagc=[0]):
    src = rng.choice(names + [0]) if rng.random() < 0.05 else rng.choice(names)
    dst = rng.choice(names + [0]) if rng.random() < 0.05 else rng.choice(names)
    tagc[0] += 1
    tag = 10 + tagc[0] % 80
    ret = dst
    r = rng.random()
    if r < p_raw_lie:
        ret = rng.choice(names + [src, 0])
    fails = 1 if rng.random() < p_fail else 0
    nil = 1 if rng.random() < 0.03 else 0
    return "reg %d %d %d %d %d %d" % (src, dst, ret, fails, tag, nil)

def _replay(rng, names, k):
    ty = rng.choice(names + [rng.randint(1, 9)])
    data = ",".join(str(rng.randint(0, 9)) for _ in range(rng.randint(0, 3))) or "-"
    return "replay %d %d %d %s %d" % (k, 1000 + k, ty, data, rng.choice([0, 0, 3, 7]))

def gen_c16(rng, tier, n):
    cases = []
    # exhaustive small scope: every sequence of up to L registrations over 3 names (honest upcasters), then probe all reverse edges
    names3 = [1, 2, 3]
    edges = [(a, b) for a in names3 for b in names3]
    L = 2 if tier == "quick" else 3
    for k in range(1, L + 1):
        for seq in itertools.product(edges, repeat=k):
            lines = ["reg %d %d %d 0 %d 0" % (a, b, b, 10 + i) for i, (a, b) in enumerate(seq)]
            lines += ["reg %d %d %d 0 %d 0" % (a, b, b, 50 + i) for i, (a, b) in enumerate(edges) if a != b][:4]
            lines += ["replay 1 1 %d 5 %d" % (t, t % 2) for t in names3]
            cases.append(lines)
    # random: up to 8 names, clears interleaved, raw upcasters returning other types, then apply everything
    for i in range(n):
        names = list(range(1, rng.choice([3, 4, 5, 8]) + 1))
        if rng.random() < 0.2:
            names += [101, 102, 103]
        if rng.random() < 0.12:
            names = [90, 91, 92, 93, 94]       # "a", "a->b", "b->c", "c", "b": names containing an arrow
        lines = []
        if rng.random() < 0.3:
            # upcasters handed to New as options (same validation as a registration; a refusal is silent): often a ring
            ring = rng.sample(names, min(len(names), rng.choice([2, 3])))
            for j, a in enumerate(ring):
                b = ring[(j + 1) % len(ring)]
                lines.append("optreg %d %d %d 0 %d" % (a, b, b, 30 + j))
            if rng.random() < 0.5:
                lines.append("optreg %d %d %d 0 39" % (rng.choice(names), rng.choice(names), rng.choice(names)))
        if rng.random() < 0.25:
            lines.insert(rng.randint(0, len(lines)), "opterrh")       # WithUpcastErrorHandler among the options of New
            if rng.random() < 0.3:
                lines.append("errh %d" % rng.randint(0, 1))
        else:
            lines.append("errh %d" % rng.randint(0, 1))
        for j in range(rng.randint(2, 16)):
            r = rng.random()
            if r < 0.75:
                lines.append(_reg(rng, names))
            elif r < 0.82:
                lines.append("clear")
            elif r < 0.92:
                lines.append("cleartype %d" % rng.choice(names))
            else:
                lines.append(_replay(rng, names, j))
        if rng.random() < 0.15 and len(names) >= 3:
            # a chain whose first step races a ClearUpcasts (a writer on the registry lock) against its own chain
            a, b, c = rng.sample(names, 3)
            lines += ["clear", "reg %d %d %d 0 %d 0" % (a, b, b, 200 + rng.randrange(40)), "reg %d %d %d 0 19 0" % (b, c, c), "replay 3 3 %d 1 0" % a]
        if rng.random() < 0.15 and len(names) >= 3:
            # raw upcasters that return, instead of their declared target, the source of the next one: the registered
            # graph stays acyclic (all edges point to one sink) while the returned types go round in a ring of 2 or 3
            k = rng.choice([2, 3]); ring = rng.sample(names, k); sink = rng.choice([t for t in names if t not in ring] or [ring[0]])
            for j, a in enumerate(ring):
                lines.append("reg %d %d %d 0 %d 0" % (a, sink, ring[(j + 1) % k], 60 + j))
        if names[0] == 90:
            # ("a->b" -> "c"), ("b->c" -> "a"), then ("a" -> "b->c") closes a cycle although "a"+"->"+"b->c" reads like the first pair
            lines += ["reg 91 93 93 0 71 0", "reg 92 90 90 0 72 0", "reg 90 92 92 0 73 0", "reg 93 91 91 0 74 0"]
        for t in names:
            lines.append("replay 9 9 %d 1 %d" % (t, rng.choice([0, 0, 4])))
        # the registry is still usable afterwards (no lock left behind by the replays)
        lines.append("reg %d %d %d 0 88 0" % (rng.choice(names), rng.choice(names), rng.choice(names)))
        lines.append("replay 9 9 %d 1 0" % rng.choice(names))
        cases.append(lines)
    # racing registrations of opposite edges (implementation-side judge: never both accepted)
    for _ in range(3 if tier == "quick" else 30):
        cases.append(["racereg %d" % (300 if tier == "quick" else 2000)])
    return cases

def gen_c17(rng, tier, n):
    cases = []
    for i in range(n):
        k = rng.choice([2, 3, 4, 5, 6])
        names = list(range(1, k + 1))
        rng.shuffle(names)
        lines = ["opterrh"] if rng.random() < 0.2 else ["errh %d" % (1 if rng.random() < 0.7 else 0)]
        shape = rng.choice(["chain", "branch", "multi", "random"])
        tag = [10]
        def reg(a, b, fails=0, ret=None):
            tag[0] += 1
            lines.append("reg %d %d %d %d %d 0" % (a, b, b if ret is None else ret, fails, tag[0]))
        failpos = rng.randint(0, k) if rng.random() < 0.6 else -1
        if shape == "chain":
            clr = rng.randrange(k - 1) if rng.random() < 0.35 else -1
            for j in range(k - 1):
                if j == clr:
                    tag[0] = 199 + j      # tag >= 200: this step races a ClearUpcasts against its own chain
                reg(names[j], names[j + 1], 1 if j == failpos else 0)
                if j == clr:
                    tag[0] = 10 + j
        elif shape == "branch":
            for j in range(1, k):
                reg(names[rng.randint(0, j - 1)], names[j], 1 if j == failpos else 0)
        elif shape == "multi":
            for j in range(k - 1):
                reg(names[j], names[j + 1], 1 if j == failpos else 0)
                if rng.random() < 0.6:
                    reg(names[j], names[rng.randint(j + 1, k - 1)], rng.randint(0, 1))
        else:
            for j in range(rng.randint(1, 10)):
                a, b = rng.sample(names, 2)
                reg(a, b, 1 if rng.random() < 0.2 else 0, ret=(rng.choice(names) if rng.random() < 0.15 else None))
        if rng.random() < 0.25:
            # typed upcasters V1 -> V2 -> V3
            lines.append("reg 101 102 102 0 91 0")
            if rng.random() < 0.5:
                lines.append("reg 102 103 103 0 92 0")
            names = names + [101, 102, 103]
        if lines[0].startswith("errh") and rng.random() < 0.4:
            # the error handler is installed (or replaced) AFTER the upcasters were registered: a failure is reported to the
            # handler that is set when it happens
            first = lines.pop(0)
            lines.append(first if rng.random() < 0.7 else "errh 1")
        toggle = rng.randint(1, len(names)) if rng.random() < 0.2 else -1
        for j, t in enumerate(names + [9]):
            if j == toggle:
                lines.append("errh %d" % rng.randint(0, 1))
            data = ",".join(str(rng.randint(0, 9)) for _ in range(rng.randint(0, 3))) or "-"
            lines.append("replay %d %d %d %s %d" % (j + 1, 7000 + j, t, data, rng.choice([0, 0, 5, 9])))
        # the same stored event object once more, after the registry changed (a failing step appended, or everything cleared)
        if rng.random() < 0.5:
            t = rng.choice(names)
            lines.append("replay 30 7200 %d 4 0" % t)
            x = rng.random()
            if x < 0.4:
                lines.append("reg %d %d %d 1 77 0" % (names[-1], 99, 99))      # a failing upcaster at the end of the chains
            elif x < 0.7:
                lines.append("clear")
                if rng.random() < 0.6:
                    # the registry is filled again after the clear, with a failing step: it is still reported
                    a, b = rng.sample(names[:k], 2)
                    lines.append("reg %d %d %d 1 78 0" % (t, b if b != t else a, b if b != t else a))
            lines.append("replayagain")
        if len(names) > k:
            # a stored payload of the typed source that is a JSON value followed by garbage: the typed step fails
            lines.append("replay 40 7300 101 %d! %d" % (rng.randint(0, 9), rng.choice([0, 3])))
        if len(names) > k:
            # the same typed source replayed again with the optional field absent / present
            for j in range(3):
                lines.append("replay %d %d 101 %d %d" % (20 + j, 7100 + j, j, rng.choice([0, 6, 0])))
        cases.append(lines)
    return cases

def nontrivial(prop, lines, impl):
    if not impl:
        return False
    if prop == "C16":
        return any(l.startswith("reg err cycle") for l in impl) or any("calls=" in l and "calls=-" not in l for l in impl)
    return any("calls=" in l and ";" in l for l in impl) or any(l.startswith("seen") and not l.endswith("errh=-") for l in impl)

def _proj(prop, out):
    if out is None:
        return ["<none>"]
    if prop == "C16":
        return [l for l in out if l.startswith("reg ") or l.startswith("!")]
    return [l for l in out if l.startswith("seen ") or l.startswith("!")]

def property_fails(prop, lines, impl, model):
    a, b = _proj(prop, impl), _proj(prop, model)
    if a == b:
        return None
    for i in range(max(len(a), len(b))):
        x = a[i] if i < len(a) else "<missing>"
        y = b[i] if i < len(b) else "<missing>"
        if x != y:
            kind = x.split(" ")[0] + ":" + (x.split(" ")[1] if len(x.split(" ")) > 1 and prop == "C16" else "")
            return "%s|implementation: %r  required by the proved model: %r" % (kind, x, y)
    return "diff"

def protect(line):
    return line.startswith("errh") or line.startswith("opterrh")

"""Domain 'store' (M3 stores, M4 Replay): generators, normaliser, known-finding witnesses for C10 / C11."""
import glob, os
from ..common import CORPUS, HARNESS, goenv
from .. import corr

def corpus_cases(prop, part):
    out = []
    for p in sorted(glob.glob(os.path.join(CORPUS, "store", "*.case"))):
        out.append([l.strip() for l in open(p) if l.strip() and not l.startswith("//")])
    return out

def out_kind(line):
    w = line.split()
    if not w:
        return "empty"
    if w[0] == "replay":
        return "replay:" + w[1]
    return " ".join(w[:2]) if w[0] in ("read", "save", "load") and len(w) > 1 and w[1] in ("ok", "err", "skip", "unsupported") else w[0]

GARBAGE = ["=abc", "=00000000000000000002x", "=-3", "=+5", "=007", "=9223372036854775808", "=1e3", "=$", "=5/1", "=0000000002/0", "=-1", "=99999"]
LIMITS = [-1, 0, 1, 2, 3, 7, 100, 2147483647, 9223372036854775807]

def pick_kind(rng, tier, kinds=None):
    k = rng.choice(kinds or ["mem", "sqlite", "sqlite", "ds", "ds"])
    if k == "sqlite":
        s = "kind sqlite batch=%d" % rng.choice([0, 0, 1, 2, 3, 7])
        if tier == "thorough" and rng.random() < 0.15:
            s += " file"
        if rng.random() < 0.25:
            s += " obs"          # built with logger, metrics hook and the remaining construction options
        return s
    if k == "ds":
        return "kind ds chunk=%d" % rng.choice([0, 1, 2, 3, 5]) + (" obs" if rng.random() < 0.25 else "")
    return "kind mem"

def from_tok(rng, nread_evs, napp):
    x = rng.random()
    if x < 0.2:
        return "-"
    if x < 0.5:
        return "@next"
    if x < 0.7 and nread_evs:
        return "@e%d" % rng.randrange(nread_evs)
    if x < 0.9 and napp:
        return "@a%d" % rng.randrange(napp)
    return rng.choice(GARBAGE)

def gen_pub(rng, tier, n):
    """C09 over the three REAL stores: publishes through a bus built on the store (and direct appends in between);
    the handler of each publish reads the log. durable-streams only unchunked (the handler reads the log in one Read)."""
    cases = []
    for _ in range(n):
        k = rng.choice(["mem", "sqlite", "sqlite", "ds", "ds"])
        lines = ["kind sqlite batch=%d" % rng.choice([0, 2]) if k == "sqlite" else ("kind ds chunk=0" if k == "ds" else "kind mem")]
        rec, prec = 1, 500000 + rng.randrange(1000)
        for _ in range(rng.randint(3, 14)):
            x = rng.random()
            if prec % 1000 == 999:
                prec += 1          # (numbers ending in 999 are the ones the validation hook rejects)
            if x < 0.06:
                lines.append("pubhookpanic %d" % (prec // 1000 * 1000 + 999)); prec = prec // 1000 * 1000 + 1000
            elif x < 0.45:
                lines.append("pub %d" % prec); prec += 1
            elif x < 0.55:
                lines.append("replaypub %d" % prec); prec += 1
            elif x < 0.75:
                lines.append("append %d" % rec); rec += 1
            elif x < 0.9:
                lines.append("read %s %d" % (rng.choice(["-", "@next"]), rng.choice([0, 2, 100])))
            else:
                lines.append("use %d" % rng.randrange(2))
        lines.append("read - 0")
        cases.append(lines)
    return cases

def gen_c10(rng, tier, n):
    cases = []
    for _ in range(n):
        lines = [pick_kind(rng, tier)]
        napp = {0: 0}
        cur = 0
        rec = 1
        if rng.random() < 0.25 and not lines[0].startswith("kind ds"):
            # the very first append of a fresh store arrives with a context that is already over
            lines.append("appenddead %d" % rec); rec += 1
            if lines[0] == "kind mem":
                napp[0] = 1
        for _ in range(rng.randint(6, 40)):
            x = rng.random()
            if x < 0.45:
                lines.append("append %d" % rec); rec += 1; napp[cur] = napp.get(cur, 0) + 1
            elif x < 0.76:
                lines.append("read %s %d" % (from_tok(rng, 3, napp.get(cur, 0)), rng.choice(LIMITS)))
            elif x < 0.82:
                # streaming reads must return the same sequence: Replay without faults streams (or pages) from the cursor
                frm = from_tok(rng, 3, napp.get(cur, 0))
                if not frm.startswith("="):
                    lines.append("replay %s %d %d - - -" % (frm, rng.choice([0, 2, 100]), rng.randint(0, 1)))
            elif x < 0.89:
                lines.append("save %s %s" % (rng.choice(["s1", "s2", "ünï"]), from_tok(rng, 2, napp.get(cur, 0))))
            elif x < 0.95:
                lines.append("load %s" % rng.choice(["s1", "s2", "ünï", "none"]))
            elif x < 0.985:
                cur = rng.randrange(3); lines.append("use %d" % cur)
            else:
                # close one of the OTHER instances; the next use of its number creates a new, empty store
                other = rng.choice([k for k in range(3) if k != cur])
                lines.append("drop %d" % other); napp[other] = 0
        # a full chain of reads with a fixed small limit from the oldest offset
        lim = rng.choice([1, 2, 3, 7])
        lines.append("read - %d" % lim)
        for _ in range(napp.get(cur, 0) // lim + 2):
            lines.append("read @next %d" % lim)
        if napp.get(cur, 0) >= 2 and rng.random() < 0.3:
            # a saved offset is whatever was saved last: forwards, backwards, back to the oldest offset
            hi = rng.randrange(1, napp[cur]); lo = rng.randrange(hi)
            sid = rng.choice(["s1", "rewind"])
            lines += ["save %s @a%d" % (sid, hi), "load %s" % sid, "save %s @a%d" % (sid, lo), "load %s" % sid, "save %s -" % sid, "load %s" % sid]
        if rng.random() < 0.1:
            lines.append("appendnil"); lines.append("read - 0")
        if rng.random() < 0.06 and not lines[0].startswith("kind ds"):
            # a long log (more than one internal page of any plausible size) streamed twice through one iterator value
            lines.append("use 8")
            lines += ["append %d" % (2000 + i) for i in range(300)]
            lines += ["streamtwice -", "streamtwice @a%d" % rng.randrange(1, 40)]
        elif rng.random() < 0.2:
            lines.append("streamtwice %s" % from_tok(rng, 3, napp.get(cur, 0)).replace("=", "@next") if False else "streamtwice -")
        if rng.random() < 0.12:
            # separately created stores, closed in creation order: A, B, close A, C – C starts empty and B keeps its events
            lines += ["use 4", "append %d" % (rec + 1), "use 5", "append %d" % (rec + 2), "drop 4", "use 6", "read - 0", "append %d" % (rec + 3),
                      "use 5", "read - 0", "use 6", "read - 0"]
        if rng.random() < 0.25:
            # concurrent appenders on a fresh instance (implementation-side judge: offsets strictly increasing in log order)
            lines.append("use 7")
            lines.append("raceappend %d %d" % (rng.randint(2, 6), rng.choice([20, 60, 150])))
        cases.append(lines)
    return cases

def gen_c11(rng, tier, n):
    cases = []
    for _ in range(n):
        k = pick_kind(rng, tier)
        lines = [k]
        nev = rng.choice([0, 1, 2, 3, 5, 9, 10, 11, 12, 25, 30])
        for r in range(1, nev + 1):
            lines.append("append %d" % r)
        sql_plain = k.startswith("kind sqlite batch=0")
        for _ in range(rng.randint(1, 6)):
            frm = "-" if rng.random() < 0.5 or nev == 0 else "@a%d" % rng.randrange(nev)
            bs = rng.choice([-1, 0, 1, 2, 3, 5, 12, 100])
            paged = 1 if rng.random() < 0.4 else 0
            fault = rng.random()
            cbf = can = rdf = "-"
            pos = rng.randrange(nev + 2)
            if fault < 0.25:
                cbf = str(pos)
            elif fault < 0.5:
                can = str(pos)
            elif fault < 0.65 and paged:
                rdf = str(rng.randrange(4))
            lines.append("replay %s %d %d %s %s %s" % (frm, bs, paged, cbf, can, rdf))
        if rng.random() < 0.3:
            lines.append("append %d" % (nev + 1))
            lines.append("replay - 3 %d - - -" % rng.randint(0, 1))
        if rng.random() < 0.3 and not (k.startswith("kind ds") and "chunk=0" not in k.split()):
            # a bus that has published itself, then events appended behind its back, then a replay on THAT bus from the
            # offset of its own last append: it must deliver what the others appended
            lines += ["pub %d" % (500000 + nev), "read - 0", "append %d" % (nev + 2), "append %d" % (nev + 3), "busreplay @next", "busreplay -"]
        if rng.random() < 0.25 and not k.startswith("kind ds"):
            lines.append("nestedreplay")      # a second replay of the same store from inside the callback of the first
        cases.append(lines)
    return cases

def gen_pubdead(rng, tier, n):
    """C13 over the real memory / SQLite stores: the FIRST publish of a fresh store has a context that is already over (the
    store may refuse it: reported once), the publishes after it are persisted normally"""
    cases = []
    for _ in range(n):
        lines = [rng.choice(["kind mem", "kind sqlite batch=0", "kind sqlite batch=2"])]
        prec = 500000 + rng.randrange(900)
        if rng.random() < 0.7:
            lines.append("pubdead %d" % prec); prec += 1
        for _ in range(rng.randint(2, 8)):
            x = rng.random()
            if x < 0.2:
                lines.append("pubdead %d" % prec); prec += 1
            elif x < 0.35:
                lines.append("pubdeadnotify %d" % prec); prec += 2      # the error handler publishes the next record
            elif x < 0.8:
                lines.append("pub %d" % prec); prec += 1
            else:
                lines.append("read - 0")
        lines.append("read - 0")
        cases.append(lines)
    return cases

def gen_flaky(rng, tier, n):
    """C13 over the real durable-streams store: the server stores an event but its acknowledgement is lost (502 from a
    gateway): the publish still delivers, the failure is reported once, and the event is not sent a second time"""
    cases = []
    for _ in range(n):
        lines = ["kind ds chunk=0"]
        prec = 500000 + rng.randrange(900)
        for _ in range(rng.randint(2, 8)):
            x = rng.random()
            if x < 0.4:
                lines.append("pubflaky %d" % prec); prec += 1
            elif x < 0.8:
                lines.append("pub %d" % prec); prec += 1
            else:
                lines.append("read - 0")
        lines.append("read - 0")
        cases.append(lines)
    return cases

def _kv(line):
    d = {}
    for w in line.split()[1:]:
        if "=" in w:
            k, v = w.split("=", 1)
            d[k] = v
    return d

def _lst(s):
    return [] if s in ("-", "", None) else s.split(",")

def normalize(lines, impl, model):
    """SQLite streaming replays with a cancellation: the database/sql driver notices a cancelled
    context asynchronously, so (a) rows already fetched in the current batch may still be handed
    out (the model lists them under may=) and (b) a cancellation during the very last rows may
    go unnoticed, ending with nil after everything was delivered (ornil=1), or — without
    batching — be reported although everything was delivered. All of these deliver a gap-free
    prefix and return nil only after everything; accept exactly these outcomes."""
    if impl is None or model is None:
        return impl, model
    impl2, model2 = list(impl), list(model)
    sqlite = bool(lines) and lines[0].startswith("kind sqlite")
    ops = [l for l in lines if not l.startswith("kind")]
    for i in range(min(len(impl2), len(model2))):
        m = model2[i]
        if not m.startswith("replay ") or not impl2[i].startswith("replay "):
            continue
        km, ki = _kv(m), _kv(impl2[i])
        a, b, c = _lst(km.get("recs")), _lst(km.get("may")), _lst(ki.get("recs"))
        base = m.split(" may=")[0].split(" ornil=")[0]
        ok = False
        if km.get("end") == "err" and (b or km.get("ornil")):
            if ki.get("end") == "err" and c[:len(a)] == a and (a + b)[:len(c)] == c:
                ok = True
            if ki.get("end") == "nil" and km.get("ornil") == "1" and c == a + b:
                ok = True
        if sqlite and km.get("end") == "nil" and ki.get("end") == "err" and c == a and i < len(ops):
            w = ops[i].split()
            if w[0] == "replay" and w[3] == "0" and w[5] != "-" and atoi_(w[5]) + 1 == len(a):
                ok = True       # unbatched stream, cancelled during the last row: reported although complete
        model2[i] = impl2[i] if ok else base
    return impl2, model2

def atoi_(s):
    try:
        return int(s)
    except ValueError:
        return 0

def nontrivial(prop, lines, impl):
    if not impl:
        return False
    if prop == "C10":
        return sum(1 for l in impl if l.startswith("read ok") and "recs=-" not in l) >= 2
    return any(l.startswith("replay") and "recs=-" not in l for l in impl)

def property_fails(prop, lines, impl, model):
    impl, model = normalize(lines, impl, model)
    keep = {"C10": ("append", "read", "save", "load", "use", "replay", "drop", "raceappend", "streamtwice", "appendnil", "appenddead"),
            "C11": ("replay", "busreplay", "nestedreplay"),
            "C09": ("pub", "replaypub", "read", "pubhookpanic"), "C03": ("pub", "replaypub", "read", "pubhookpanic"),
            "C13": ("pub", "pubflaky", "pubdead", "pubdeadnotify", "read")}.get(prop, ("replay",))
    a = [l for l in (impl or ["<none>"]) if l.startswith("!") or l.split(" ", 1)[0] in keep]
    b = [l for l in (model or ["<none>"]) if l.startswith("!") or l.split(" ", 1)[0] in keep]
    if a == b:
        return None
    for i in range(max(len(a), len(b))):
        x = a[i] if i < len(a) else "<missing>"
        y = b[i] if i < len(b) else "<missing>"
        if x != y:
            return "%s %s|implementation: %r  required by the model: %r" % (lines[0], x.split(" ")[0], x[:300], y[:300])
    return "diff"

def protect(line):
    return line.startswith("kind")

# ---- witnesses of the known findings, replayed on the implementation on every run ----

def _run_impl(lines):
    (out,) = corr.run_binary([HARNESS, "store"], [lines], 120, goenv())
    return out

def known_c10(prop, known):
    out = []
    ids = {k.get("id") for k in known if k.get("property") == prop and k.get("status") == "known"}
    if "C10-sqlite-offsets-not-lexicographic" in ids:
        tr = _run_impl(["kind sqlite batch=0"] + ["append %d" % i for i in range(1, 11)])
        offs = [l.split()[1] for l in tr if l.startswith("append ")]
        if len(offs) == 10 and not (offs[8] < offs[9]):
            out.append("KNOWN-FINDING: property=C10 sqlite offsets %r then %r do not increase under lexicographic comparison (format pinned by the suite)" % (offs[8], offs[9]))
    if "C10-ds-read-limit-truncates-chunk" in ids:
        tr = _run_impl(["kind ds chunk=5"] + ["append %d" % i for i in range(1, 6)] + ["read - 2", "read @next 2", "read - 0", "read @e0 0"])
        reads = [l for l in tr if l.startswith("read ")]
        if len(reads) == 4 and "recs=1,2" in reads[0] and "recs=-" in reads[1]:
            out.append("KNOWN-FINDING: property=C10 durablestream Read(oldest,2) on a 5-event chunk returns 2 events and a next offset after which Read returns nothing (events 3-5 unreachable by chained reads)")
        if len(reads) == 4 and "recs=1,2,3,4,5" in reads[2] and "recs=-" in reads[3]:
            out.append("KNOWN-FINDING: property=C10 durablestream synthetic per-event offsets are not resume points: Read(offset of event 1) returns nothing")
    if "C10-sqlite-saved-offset-not-verbatim" in ids:
        tr = _run_impl(["kind sqlite batch=0", "save w =00000000000000000003", "load w"])
        if len(tr) >= 2 and tr[-2] == "save ok" and tr[-1] == "load 3":
            out.append("KNOWN-FINDING: property=C10 sqlite SaveOffset(\"00000000000000000003\") succeeds and LoadOffset returns \"3\": another store's offset does not come back as it was saved")
    return out

def known_c11(prop, known):
    out = []
    ids = {k.get("id") for k in known if k.get("property") == prop and k.get("status") == "known"}
    if "C11-ds-replay-batch-below-chunk-loses-events" in ids:
        tr = _run_impl(["kind ds chunk=5"] + ["append %d" % i for i in range(1, 6)] + ["replay - 2 0 - - -"])
        rp = [l for l in tr if l.startswith("replay ")]
        if rp and "end=nil" in rp[0] and "recs=1,2 " in rp[0] + " ":
            out.append("KNOWN-FINDING: property=C11 Replay over durablestream with batch size 2 on a 5-event chunk delivers 2 events and returns nil")
    return out

"""Domain 'durable' (M10): the SQLite store under SIGKILL, clean close and reopen (C14)."""
from ..common import DRIVER
from .. import corr

def corpus_cases(prop, part):
    return [["append 2", "busyappend", "reopen"], ["append 3", "saveback", "reopen", "append 1", "reopen"], ["append 1", "twohandles", "reopen", "appendnil", "reopen", "twohandles", "reopen"], ["append 2 save", "saveretry", "reopen", "saveretry", "reopen"], ["append 1", "concappend 8 10", "reopen", "concappend 4 5", "reopen"], ["kill 1 0 1", "reopen"], ["kill 6 150 2", "reopen", "append 2 save", "kill 3 0 0", "reopen"]]

def out_kind(line):
    return line.split(" ", 1)[0]

def gen(rng, tier, n):
    cases = []
    for _ in range(n):
        lines = []
        for _ in range(rng.randint(1, 4)):
            x = rng.random()
            if x < 0.6:
                lines.append("kill %d %d %d" % (rng.randint(1, 40), rng.choice([0, 0, 20, 100, 300, 1000, 3000]), rng.choice([0, 1, 2, 5])))
                if rng.random() < 0.7:
                    lines.append("reopen")
            elif x < 0.78:
                lines.append("append %d%s" % (rng.randint(1, 5), " save" if rng.random() < 0.5 else ""))
            elif x < 0.84:
                lines.append("concappend %d %d" % (rng.choice([2, 4, 8]), rng.choice([3, 10])))   # one handle, concurrent appenders
            elif x < 0.855:
                lines.append("twohandles")     # a second handle opened and closed while the first keeps writing
            elif x < 0.87:
                lines.append("appendnil")
            elif x < 0.885:
                lines.append("saveretry")
            elif x < 0.9:
                lines.append("saveback")      # a failed SaveOffset retried with the same offset must reach the database
            elif x < 0.93:
                lines.append("busyappend")      # a second connection holds the write lock: Append must not acknowledge
            else:
                lines.append("reopen")
        lines.append("reopen")
        cases.append(lines)
    return cases

def nontrivial(prop, lines, impl):
    return bool(impl) and any(l.startswith("kill") for l in lines)

def property_fails(prop, lines, impl, model):
    a, b = impl or ["<none>"], model or ["<none>"]
    if a == b:
        return None
    for x, y in zip(a + ["<missing>"] * len(b), b + ["<missing>"] * len(a)):
        if x != y:
            return "%s|implementation: %r  required: %r" % (x.split(" ")[0], x, y)
    return "diff"

def judge_info(prop, infos):
    todo = [(lines, l[len("~recovered "):]) for lines, info in infos for l in info if l.startswith("~recovered ")]
    if not todo:
        return []
    out = corr.run_binary([DRIVER, "durablecheck"], [[w for _, w in todo]], 300)[0]
    bad = []
    for (lines, w), verdict in zip(todo, out):
        if verdict != "ok":
            bad.append((lines, "recovered|%s: %s" % (verdict, w[:400])))
            if len(bad) >= 3:
                break
    return bad

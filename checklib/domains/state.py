"""Domain 'state' (M7 materializer, M7b wire format): generators and judges for C18 / C19."""
import base64, glob, json, os
from ..common import CORPUS, DRIVER
from .. import corr

def corpus_cases(prop, part):
    out = []
    for p in sorted(glob.glob(os.path.join(CORPUS, "state", "*.case"))):
        out.append([l.strip() for l in open(p) if l.strip() and not l.startswith("//")])
    return out

def out_kind(line):
    w = line.split()
    if not w:
        return "empty"
    if w[0] == "state":
        return "state"
    return " ".join(w[:2]) if w[0] == "replay" else w[0]

def b64(s):
    return base64.b64encode(s.encode() if isinstance(s, str) else s).decode()

NAMES = {1: "main.E1", 2: "e2/x", 3: "main.E3", 4: "main.E4"}
KEYS = ["", "a", "b/c", "/", "ünï✓", "a/b", "k with space", "long" * 30, "\"q\"", "e2/x/a"]

NAMEPOOL = ["", "plain", "ünï", "q\"uote", "<&>", "new\nline"]

def doc_for(ty, v):
    """the JSON document of THE value with index v (go/harness/state.go mkE1/mkE2/mkE3)"""
    if ty == 2:
        return {"id": v, "m": ({"k%d" % (v % 3): v} if v % 5 else None)}
    if ty == 3:
        return {"id": v, "s": NAMEPOOL[v % 6], "p": "ps:%d" % (v % 7)}
    d = {"id": v, "name": NAMEPOOL[v % 6], "f": v * 0.25}
    if v % 3 == 0:
        d["tags"] = ["t", str(v)]
    if v % 4 == 1:
        d["nested"] = {"id": v, "name": "n", "f": 0}
    return d

# hostile / odd documents with the behaviour the model assigns to them: (abstract class, json text or bytes)
def raw_table(rng):
    ty = rng.choice([1, 2, 3]); key = rng.randrange(1, len(KEYS)); v = rng.randrange(1, 50)
    n, k = NAMES[ty], KEYS[key]
    d = doc_for(ty, v)
    T = [
        ("garbage", b"not json at all"),
        ("garbage", b"[1,2,3]"),
        ("garbage", b'"a string"'),
        ("garbage", b"42"),
        ("garbage", b'{"type":"%s","key":5,"headers":{"operation":"insert"}}' % n.encode()),
        ("garbage", json.dumps({"type": 7, "key": k, "value": d, "headers": {"operation": "insert"}}).encode()),
        ("garbage", json.dumps({"type": n, "key": k, "value": d, "headers": "oops"}).encode()),
        ("garbage", json.dumps({"type": n, "key": k, "value": d, "headers": {"operation": 3}}).encode()),
        ("garbage", b'{"type":"x","key":"a","headers":{"operation":"insert"}'),
        # a known control value next to a wrongly typed sibling: the headers do not decode as control headers, so this is not a
        # control message but a change message of no (hence an unregistered) type: rejected when strict, ignored otherwise
        ("change 4 0 other 0 1", json.dumps({"headers": {"control": "reset", "offset": 7}}).encode()),
        ("change 4 0 other 0 1", json.dumps({"headers": {"control": "snapshot-start", "offset": ["x"]}}).encode()),
        ("control reset", json.dumps({"headers": {"control": "reset"}}).encode()),
        ("control reset", json.dumps({"HEADERS": {"CONTROL": "reset", "Offset": "9"}}).encode()),
        ("control reset", json.dumps({"type": n, "key": k, "value": d, "headers": {"operation": "insert", "control": "reset"}}).encode()),
        ("control other", json.dumps({"headers": {"control": "compact"}}).encode()),
        ("control snapstart", b'{"headers":{"control":"reset"},"headers":{"control":"snapshot-start"}}'),
        ("change %d %d insert %d 1" % (ty, key, v), json.dumps({"TYPE": n, "Key": k, "VALUE": d, "Headers": {"OPERATION": "insert"}}).encode()),
        ("change %d %d update %d 1" % (ty, key, v), json.dumps({"type": n, "key": k, "value": d, "headers": {"operation": "update", "control": ""}}).encode()),
        ("change %d %d update %d 1" % (ty, key, v), json.dumps({"type": n, "key": k, "value": d, "headers": {"operation": "update", "control": None, "extra": [1]}}).encode()),
        ("change %d %d other %d 1" % (ty, key, v), json.dumps({"type": n, "key": k, "value": d, "headers": {"operation": "upsert"}}).encode()),
        ("change %d %d other %d 1" % (ty, key, v), json.dumps({"type": n, "key": k, "value": d}).encode()),
        ("change %d %d other %d 1" % (ty, key, v), json.dumps({"type": n, "key": k, "value": d, "headers": None}).encode()),
        ("change %d %d insert 0 0" % (ty, key), json.dumps({"type": n, "key": k, "value": "a string", "headers": {"operation": "insert"}}).encode()),
        ("change %d %d insert 0 0" % (ty, key), json.dumps({"type": n, "key": k, "headers": {"operation": "insert"}}).encode()),
        ("change %d %d insert 0 1" % (ty, key), json.dumps({"type": n, "key": k, "value": None, "headers": {"operation": "insert"}}).encode()),
        ("change %d %d delete 0 1" % (ty, key), json.dumps({"type": n, "key": k, "value": "ignored", "headers": {"operation": "delete"}}).encode()),
        ("change 4 %d insert %d 1" % (key, v), json.dumps({"type": "no.such.type", "key": k, "value": d, "headers": {"operation": "insert"}}).encode()),
        ("change 4 0 other 0 1", b"null"),
        ("change 4 0 other 0 1", b"{}"),
        ("change %d %d insert %d 1" % (ty, key, v), ('{"type":"zzz","type":"%s","key":%s,"value":%s,"headers":{"operation":"delete"},"headers":{"operation":"insert"}}' % (n, json.dumps(k), json.dumps(d))).encode()),
        ("change %d %d insert %d 1" % (ty, key, v), json.dumps({"type": n, "key": k, "value": d, "old_value": 5, "headers": {"operation": "insert", "txid": None, "timestamp": None}}).encode()),
        ("garbage", json.dumps({"type": n, "key": k, "value": d, "headers": {"operation": "insert", "txid": 5}}).encode()),
    ]
    return rng.choice(T)

def gen_case(rng, tier, focus):
    lines = ["strict %d" % (1 if rng.random() < 0.4 else 0)]
    store = rng.choice(["mem", "mem", "mem", "sqlite"])
    lines.append("store " + store)
    regs = rng.sample([1, 2, 3], rng.randint(1, 3))
    if rng.random() < 0.3:
        regs.insert(rng.randint(0, len(regs)), 6)      # a collection of E1 values under an explicit entity type name
    for r in regs:
        lines.append("reg %d" % r)
    keys = [rng.randrange(1, len(KEYS)) for _ in range(rng.randint(1, 4))]
    if rng.random() < 0.15:
        keys.append(0)
    def opts():
        o = []
        if rng.random() < 0.25: o.append("tx=t%d" % rng.randrange(9))
        if rng.random() < 0.25: o.append("ts=%d" % rng.randrange(100000))
        if rng.random() < 0.15: o.insert(rng.randint(0, len(o)), "auto")      # WithAutoTimestamp, before or after an explicit one
        if rng.random() < (0.4 if 6 in regs else 0.12): o.append("et=%d" % rng.choice([1, 2, 3, 4, 6, 6] if 6 in regs else [1, 2, 3, 4]))
        return (" " + " ".join(o)) if o else ""
    n = rng.randint(4, 30)
    for i in range(n):
        x = rng.random()
        ty = rng.choice([1, 2, 3, 3, 2, 1, 4])
        k = rng.choice(keys)
        v = rng.randrange(1, 60)
        def val(ty, o):
            # a write whose Go type is not the entity type it is filed under (the unregistered E4, or et= naming another
            # type) carries nothing but its id across: indices >= 1000 name those id-only values (harness mkE*)
            cross = ty == 4 or any(w.startswith("et=") and w != "et=%d" % ty and not (w == "et=6" and ty == 1) for w in o.split())
            return v + 1000 if cross else v
        if x < 0.30:
            o = opts()
            lines.append("ins %d %d %d%s" % (ty, k, val(ty, o), o))
        elif x < 0.45:
            t2 = rng.choice([1, 2, 3]); o = opts()
            lines.append("upd %d %d %d%s" % (t2, k, val(t2, o), o))
        elif x < 0.50:
            lines.append("updold %d %d %d %d" % (rng.choice([1, 2, 3]), k, v, rng.randrange(60)))
        elif x < 0.62:
            lines.append("del %d %d%s" % (ty, k, opts()))
        elif x < 0.65:
            lines.append("delold %d %d %d" % (rng.choice([1, 2, 3]), k, v))
        elif x < 0.72:
            lines.append("ctl %s%s" % (rng.choice(["reset", "snapstart", "snapend", "snapstart"]), rng.choice(["", " 7", " off"])))
        elif x < 0.76:
            lines.append("ins 5 %d 0 et=%d" % (k, rng.choice(regs)))       # value that does not decode into the entity type
        elif x < (0.90 if focus == "C19" else 0.80):
            cls, data = raw_table(rng)
            lines.append("raw %s | %s" % (cls, b64(data)))
        else:
            lines.append("replay")
    lines.append("replay")
    lines.append("replay")
    lines.append("fresh")
    lines.append("replay")
    if focus == "C19" and rng.random() < 0.3:
        lines.append("fuzz %d %d" % (rng.randrange(1 << 30), 100 if tier == "quick" else 400))
    return lines

def gen_ds_roundtrip(rng):
    """every store: helper-built messages only, one error-free replay from the oldest offset"""
    lines = ["strict 0", "store ds", "reg 1", "reg 2", "reg 3"]
    for i in range(rng.randint(2, 14)):
        ty = rng.choice([1, 2, 3]); k = rng.randrange(1, len(KEYS)); v = rng.randrange(1, 60)
        lines.append(rng.choice(["ins %d %d %d" % (ty, k, v), "upd %d %d %d tx=q" % (ty, k, v), "del %d %d" % (ty, k), "ctl snapend 3", "ctl reset"]))
    lines.append("replay")
    return lines

def make_gen(focus):
    def gen(rng, tier, n):
        cases = [gen_case(rng, tier, focus) for _ in range(n)]
        cases += [gen_ds_roundtrip(rng) for _ in range(max(3, n // 15))]
        return cases
    return gen

def nontrivial(prop, lines, impl):
    if not impl:
        return False
    states = [l for l in impl if l.startswith("state ")]
    if prop == "C18":
        return any("=" in l.split("|", 1)[1] for l in states) and sum(1 for l in lines if l.split()[0] in ("del", "ctl", "delold")) >= 1
    return any(l.startswith("raw") for l in lines) or any(" tx=" in l or " ts=" in l or " auto" in l for l in lines)

def property_fails(prop, lines, impl, model):
    a = impl or ["<none>"]
    b = model or ["<none>"]
    if a == b:
        return None
    for i in range(max(len(a), len(b))):
        x = a[i] if i < len(a) else "<missing>"
        y = b[i] if i < len(b) else "<missing>"
        if x != y:
            return "%s|implementation: %r  required by the model: %r" % (x.split(" ")[0], x[:300], y[:300])
    return "diff"

def judge_info(prop, infos):
    """C19: every helper-built message the harness serialised must have exactly the state-protocol wire form"""
    if prop != "C19":
        return []
    todo = [(lines, l[len("~wire "):]) for lines, info in infos for l in info if l.startswith("~wire ")]
    if not todo:
        return []
    out = corr.run_binary([DRIVER, "wirecheck"], [[w for _, w in todo]], 300)[0]
    bad = []
    for (lines, w), verdict in zip(todo, out):
        if verdict != "ok":
            bad.append((lines, "wire|%s for %s" % (verdict, w.split(" | ")[0])))
            if len(bad) >= 3:
                break
    return bad

def protect(line):
    return line.split(" ", 1)[0] in ("strict", "store", "reg")

"""Domain 'shutdown' (M2s): EventBus.Shutdown vs blocked async handlers, context expiry, counting Close (C06)."""
def corpus_cases(prop, part):
    return [["closer 1 0", "async 1", "shutdownc", "release 1", "async 2", "shutdown", "release 2", "final"],
            ["closer 1 0", "async 2", "cancel", "shutdown", "release 2", "final"],
            ["closer 1 0", "async 3", "shutdown", "release 2", "cancel", "release 1", "final"]]

def out_kind(line):
    return " ".join(line.split()[:2])

def gen(rng, tier, n):
    cases = []
    for _ in range(n):
        closer = rng.random() < 0.8
        lines = ["closer %d %d" % (1 if closer else 0, 1 if closer and rng.random() < 0.2 else 0)]
        inflight, cancelled, pending, done = 0, False, False, False
        for _ in range(rng.randint(2, 7)):
            x = rng.random()
            if done:
                break
            if x < 0.3 and not pending:
                k = rng.randint(1, 4); inflight += k; lines.append("async %d" % k)
            elif x < 0.55 and inflight > 0:
                k = rng.randint(1, inflight); inflight -= k; lines.append("release %d" % k)
                if pending and inflight == 0: pending = False; done = True
            elif x < 0.7 and not cancelled and not (inflight == 0 and not pending and False):
                # never make both select branches ready at once: cancel only while work is in flight or after Shutdown returned
                if inflight > 0 or done:
                    cancelled = True; lines.append("cancel")
                    if pending: pending = False; done = True
            elif x < 0.8 and inflight > 0 and not pending and not done:
                lines.append("shutdownc")       # a call that gives up (its own context ends): nothing is closed, a later call still waits
            elif not pending and not done and not (inflight == 0 and cancelled):
                lines.append("shutdown")
                if inflight == 0 or cancelled: done = True
                else: pending = True
        if inflight > 0:
            lines.append("release %d" % inflight)
        lines.append("final")
        cases.append(lines)
    return cases

def nontrivial(prop, lines, impl):
    return bool(impl) and any(l.startswith("shutdown") for l in impl)

def property_fails(prop, lines, impl, model):
    a, b = impl or ["<none>"], model or ["<none>"]
    if a == b:
        return None
    for x, y in zip(a + ["<missing>"] * len(b), b + ["<missing>"] * len(a)):
        if x != y:
            return "%s|implementation: %r  required by the model: %r" % (x.split(" ")[0], x, y)
    return "diff"

def protect(line):
    return line.startswith("closer")

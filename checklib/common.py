"""Shared paths and helpers for the ebu verification checks."""
import fcntl, json, os, random, subprocess, sys, time, hashlib

VERIF = os.path.dirname(os.path.dirname(os.path.abspath(__file__)))
REPO = os.environ.get("VERIF_REPO", "/repo")
BUILD = os.path.join(VERIF, ".build")
LEAN = os.path.join(VERIF, "lean")
GOH = os.path.join(VERIF, "go", "harness")
GOX = os.path.join(VERIF, "go", "extract")
HARNESS = os.path.join(BUILD, "harness")
EXTRACT = os.path.join(BUILD, "extract")
DRIVER = os.path.join(LEAN, ".lake", "build", "bin", "ebudriver")
REPLAYS = os.path.join(VERIF, "replays")
EVIDENCE = os.path.join(VERIF, "evidence")
CORPUS = os.path.join(VERIF, "corpus")

ALLOWED_AXIOMS = {"propext", "Classical.choice", "Quot.sound"}

def goenv():
    e = dict(os.environ)
    e["GOFLAGS"] = "-mod=mod"
    e["GOPROXY"] = "off"
    e.pop("GOSUMDB", None)          # GOSUMDB=off breaks the cached-toolchain switch
    e["GOTOOLCHAIN"] = "auto"
    e.setdefault("GOCACHE", os.path.join(BUILD, "gocache"))
    return e

def _cap_driver_memory():
    # the model driver is a pure function of its input: a case that makes it need more than 12 GB of address space is
    # a generator accident (exponential case), not something to take the machine down for
    import resource
    resource.setrlimit(resource.RLIMIT_AS, (12 << 30, 12 << 30))

def run(cmd, cwd=None, env=None, timeout=None, inp=None):
    """run a command; returns (rc, stdout, stderr); rc=-9 on timeout"""
    try:
        pre = _cap_driver_memory if cmd and os.path.basename(str(cmd[0])) == "ebudriver" else None
        p = subprocess.run(cmd, cwd=cwd, env=env, input=inp, capture_output=True, text=True, timeout=timeout, preexec_fn=pre)
        return p.returncode, p.stdout, p.stderr
    except subprocess.TimeoutExpired as ex:
        so = ex.stdout.decode() if isinstance(ex.stdout, bytes) else (ex.stdout or "")
        se = ex.stderr.decode() if isinstance(ex.stderr, bytes) else (ex.stderr or "")
        return -9, so, se

class Lock:
    """process-wide build lock (checks may be started concurrently)"""
    def __init__(self, name="build"):
        os.makedirs(BUILD, exist_ok=True)
        self.path = os.path.join(BUILD, name + ".lock")
    def __enter__(self):
        self.f = open(self.path, "w")
        fcntl.flock(self.f, fcntl.LOCK_EX)
        return self
    def __exit__(self, *a):
        fcntl.flock(self.f, fcntl.LOCK_UN)
        self.f.close()

def seed_from_env():
    try:
        return int(os.environ.get("VERIF_SEED", "1"))
    except ValueError:
        return 1

def rng_for(seed, *names):
    h = hashlib.sha256(("%d/" % seed + "/".join(names)).encode()).digest()
    return random.Random(int.from_bytes(h[:8], "big"))

def log(*a):
    print(*a, file=sys.stderr, flush=True)

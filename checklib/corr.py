"""Correspondence: run the same cases through the Go harness (real code) and the Lean model driver, diff."""
import os, tempfile, concurrent.futures as cf
from .common import *

def _format(cases):
    out = []
    for i, lines in enumerate(cases):
        out.append("#case %d" % i)
        out.extend(lines)
    return "\n".join(out) + "\n"

def _parse(text, n):
    """split driver/harness output back into per-case line lists; missing cases -> None"""
    res = [None] * n
    cur = None
    for line in text.splitlines():
        if line.startswith("#case"):
            try:
                cur = int(line.split()[1])
            except (IndexError, ValueError):
                cur = None
            if cur is not None and 0 <= cur < n:
                res[cur] = []
            continue
        if cur is not None and 0 <= cur < n:
            res[cur].append(line.rstrip("\n"))
    return res

_HANG_CONFIRMATIONS = [0]

def run_binary(cmd, cases, timeout, env=None, depth=0):
    """run `cmd` on all cases in one process; isolate crashes/hangs by re-running the rest individually"""
    n = len(cases)
    if n == 0:
        return []
    rc, so, se = run(cmd, inp=_format(cases), timeout=timeout, env=env)
    res = _parse(so, n)
    if rc == 0 and all(r is not None for r in res):
        return res
    # the process died or hung inside one case: the last case that produced a header is the culprit.
    # Mark it and run the rest of the batch in a fresh process (recursively).
    started = [i for i, r in enumerate(res) if r is not None]
    if started:
        c = started[-1]
        if any(l.startswith("!HANG") for l in res[c]) and _HANG_CONFIRMATIONS[0] < 2 and not (env or {}).get("VERIF_CASE_TIMEOUT"):
            # the per-case watchdog is wall-clock: on a loaded machine a long case can trip it. Run the case alone with a
            # generous limit before calling it a hang (at most twice per check: a real deadlock hangs again anyway)
            _HANG_CONFIRMATIONS[0] += 1
            env2 = dict(env or os.environ, VERIF_CASE_TIMEOUT="120")
            rc2, so2, _ = run(cmd, inp=_format([cases[c]]), timeout=200, env=env2)
            again = _parse(so2, 1)[0]
            if rc2 == 0 and again is not None and not any(l.startswith("!HANG") for l in again):
                res[c] = again + ["~hang-not-confirmed the case tripped the 5 s watchdog in its batch but finishes when run alone (limit 120 s)"]
        if not any(l.startswith("!HANG") for l in res[c]) and not any(l.startswith("~hang-not-confirmed") for l in res[c]):
            if rc == -9:
                res[c] = res[c] + ["!TIMEOUT"]
            else:
                tail = [l for l in se.strip().splitlines() if l.strip()][:3]
                res[c] = res[c] + ["!CRASH rc=%d %s" % (rc, " | ".join(tail)[:300])]
        rest = [i for i in range(c + 1, n)]
    else:
        res[0] = ["!CRASH rc=%d before the first case" % rc]
        rest = [i for i in range(1, n)]
    if rest and depth < 40:
        sub = run_binary(cmd, [cases[i] for i in rest], timeout, env, depth + 1)
        for i, r in zip(rest, sub):
            res[i] = r
    for i in range(n):
        if res[i] is None:
            res[i] = ["!NOT-RUN"]
    return res

def run_pair(domain, cases, harness_extra=None, timeout=600, jobs=8, chunk=64):
    """returns list of (impl_out, model_out) per case"""
    hcmd = [HARNESS, domain] + list(harness_extra or [])
    dcmd = [DRIVER, domain]
    chunks = [cases[i:i + chunk] for i in range(0, len(cases), chunk)]
    impl, model = [None] * len(chunks), [None] * len(chunks)
    with cf.ThreadPoolExecutor(max_workers=jobs) as ex:
        futs = {}
        for k, ch in enumerate(chunks):
            futs[ex.submit(run_binary, hcmd, ch, timeout, goenv())] = ("i", k)
            futs[ex.submit(run_binary, dcmd, ch, timeout)] = ("m", k)
        for f in cf.as_completed(futs):
            kind, k = futs[f]
            (impl if kind == "i" else model)[k] = f.result()
    out = []
    for k in range(len(chunks)):
        out.extend(zip(impl[k], model[k]))
    return out

def split_info(lines):
    """lines starting with '~' are informational (measurements, wire dumps): not part of the diff"""
    if lines is None:
        return None, []
    return [l for l in lines if not l.startswith("~")], [l for l in lines if l.startswith("~")]

def first_diff(a, b):
    """index of the first differing line (or None)"""
    for i in range(max(len(a), len(b))):
        x = a[i] if i < len(a) else "<missing>"
        y = b[i] if i < len(b) else "<missing>"
        if x != y:
            return i
    return None

def shrink(domain, lines, still_fails, protect=lambda l: False, budget=120):
    """greedy delta debugging over the op lines of one case"""
    cur = list(lines)
    n = 2
    tries = 0
    while len(cur) >= 2 and tries < budget:
        size = max(1, len(cur) // n)
        removed = False
        for start in range(0, len(cur), size):
            cand = [l for i, l in enumerate(cur) if not (start <= i < start + size) or protect(l)]
            if len(cand) == len(cur):
                continue
            tries += 1
            if still_fails(cand):
                cur = cand
                n = max(2, n - 1)
                removed = True
                break
            if tries >= budget:
                break
        if not removed:
            if size == 1:
                break
            n = min(len(cur), n * 2)
    return cur

"""setup: build everything the checks need, offline, from files on disk."""
import sys
from .common import *
from . import build, props

def main():
    with Lock():
        ok, msg = build.regen_facts()
        if not ok:
            print("fact extraction failed:\n" + msg); return 1
        mods = sorted({sp["module"] for sp in props.PROPS.values() if sp.get("ready")})
        ok, out = build.lake_build(mods + ["ebudriver"])
        if not ok:
            print(out[-6000:]); print("lake build failed"); return 1
        ok, msg = build.build_harness()
        if not ok:
            print(msg); print("harness build failed"); return 1
        ok, msg = build.build_racestress()
        if not ok:
            print(msg); print("racestress build failed"); return 1
    print("setup ok: lean modules %s, driver, harness" % ", ".join(mods))
    return 0

if __name__ == "__main__":
    sys.exit(main())

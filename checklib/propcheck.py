"""The per-property check: prove (Lean), tie (correspondence), decide, write evidence."""
import argparse, json, os, sys, time, hashlib, collections, importlib
from .common import *
from . import build, leanaudit, corr

def load_known():
    p = os.path.join(VERIF, "known_findings.json")
    if not os.path.exists(p):
        return []
    return json.load(open(p)).get("findings", [])

def write_replay(prop, name, payload):
    os.makedirs(REPLAYS, exist_ok=True)
    path = os.path.join(REPLAYS, "%s_%s.json" % (prop, name))
    with open(path, "w") as f:
        json.dump(payload, f, indent=1)
    return path

class Result:
    def __init__(self):
        self.violations = []     # (replay_path, no_failing_input: bool, text)
        self.known_lines = []
        self.cov = collections.OrderedDict()
        self.assumptions = []

def lean_phase(spec, tier, res):
    """build + audit the property's theorems. returns dict describing the proof state"""
    module = spec["module"]
    info = {"module": module}
    ok, out = build.lake_build([module, "ebudriver"])
    info["build_ok"] = ok
    info["build_errors"] = build.failed_decls(out) if not ok else []
    if not ok:
        info["build_tail"] = out[-3000:]
        # the driver may still be needed for the search phase: build it alone (model files only)
        ok2, out2 = build.lake_build(["ebudriver"])
        info["driver_ok"] = ok2
        if not ok2:
            info["build_tail"] += "\n" + out2[-2000:]
    else:
        info["driver_ok"] = True
    names = leanaudit.theorems_of(module)
    info["theorems"] = names
    axioms, text = ({}, "")
    if ok:
        axioms, text = leanaudit.print_axioms(module, names)
    info["axioms"] = axioms
    bad_ax = {n: [a for a in ax if a not in ALLOWED_AXIOMS] for n, ax in axioms.items()}
    bad_ax = {n: a for n, a in bad_ax.items() if a}
    info["bad_axioms"] = bad_ax
    info["missing"] = [n for n in names if n not in axioms]
    info["forbidden"] = leanaudit.scan_forbidden(leanaudit.lean_sources(module))
    info["sources"] = [os.path.relpath(p, LEAN) for p in leanaudit.lean_sources(module)]
    info["discharged"] = [n for n in names if n in axioms and n not in bad_ax]
    if tier == "thorough" and ok:
        okc, outc = leanaudit.leanchecker(module)
        info["leanchecker_ok"] = okc
        if not okc:
            info["leanchecker_tail"] = outc
    return info

def run_pairs(dom, part, cases, timeout=None, jobs=None):
    """implementation and model outputs for the cases of one part (domains that need the model's
    schedule first – the interleaving domain – bring their own two-phase runner)"""
    if hasattr(dom, "run_cases"):
        return dom.run_cases(cases, part)
    return corr.run_pair(part["domain"], cases, harness_extra=part.get("harness_extra"),
                         timeout=timeout or part.get("timeout", 600), jobs=jobs or part.get("jobs", 8), chunk=part.get("chunk", 64))

def corr_phase(prop, spec, tier, seed, res, budget_scale=1):
    """runs every correspondence part; returns list of divergences and coverage counters"""
    divergences = []
    stats = dict(evaluations=0, traces_validated_against_impl=0, nontrivial=0)
    distinct = set()
    samples = []
    dist = collections.Counter()
    for part in spec["parts"]:
        dom = importlib.import_module("checklib.domains." + part["domain_module"])
        n = part["n_quick"] if tier == "quick" else part["n_thorough"]
        n = int(n * budget_scale)
        rng = rng_for(seed, prop, part["name"])
        cases = []
        for c in dom.corpus_cases(prop, part):
            cases.append(("corpus", c))
        for c in part["gen"](rng, tier, n):
            cases.append(("gen", c))
        pairs = run_pairs(dom, part, [c for _, c in cases])
        infos = []
        for (origin, lines), (impl, model) in zip(cases, pairs):
            impl, info = corr.split_info(impl)
            infos.append((lines, info))
            for l in info:
                dist["info:" + l.split(" ", 1)[0]] += 1
            if hasattr(dom, "normalize"):
                impl, model = dom.normalize(lines, impl, model)
            if impl is not None and len(impl) > 4000:
                stats["oversize_skipped"] = stats.get("oversize_skipped", 0) + 1
                continue
            if model is not None and any(l.startswith(("!CRASH", "!TIMEOUT", "!NOT-RUN")) for l in model):
                # the MODEL driver ran out of its resource limits on this case (generator accident): no verdict either way
                stats["model_resource_skipped"] = stats.get("model_resource_skipped", 0) + 1
                continue
            stats["evaluations"] += 1
            for l in lines:
                dist["op:" + l.split()[0]] += 1
            for l in impl or []:
                dist["out:" + dom.out_kind(l)] += 1
            d = corr.first_diff(impl, model)
            if d is None:
                stats["traces_validated_against_impl"] += 1
            else:
                divergences.append(dict(part=part, lines=lines, impl=impl, model=model, at=d, origin=origin))
            if dom.nontrivial(prop, lines, impl):
                stats["nontrivial"] += 1
                distinct.add(hashlib.sha1("\n".join(impl + info).encode()).hexdigest())
                if len(samples) < 3:
                    samples.append({"domain": part["domain"], "input": lines[:40], "impl_trace": impl[:40]})
        if hasattr(dom, "judge_info"):
            for lines, why in dom.judge_info(prop, infos):
                divergences.append(dict(part=part, lines=lines, impl=["<info-line judge>"], model=[], at=0, origin="judge", judged=why))
    stats["distinct_nontrivial"] = len(distinct)
    stats["samples"] = samples
    stats["distribution"] = dict(sorted(dist.items()))
    return divergences, stats

def classify(prop, dv):
    """does the property itself fail on the implementation's trace of this divergence?"""
    if dv.get("judged"):
        return dv["judged"]
    part = dv["part"]
    dom = importlib.import_module("checklib.domains." + part["domain_module"])
    return dom.property_fails(prop, dv["lines"], dv["impl"], dv["model"])

def shrink_divergence(prop, dv, want_property_failure):
    part = dv["part"]
    dom = importlib.import_module("checklib.domains." + part["domain_module"])
    def still(cand):
        (impl, model), = run_pairs(dom, part, [cand], timeout=60, jobs=2)
        impl, info = corr.split_info(impl)
        if dv.get("judged"):
            return bool(dom.judge_info(prop, [(cand, info)]))
        if hasattr(dom, "normalize"):
            impl, model = dom.normalize(cand, impl, model)
        if corr.first_diff(impl, model) is None:
            return False
        if want_property_failure:
            return bool(dom.property_fails(prop, cand, impl, model))
        return True
    small = corr.shrink(part["domain"], dv["lines"], still, protect=getattr(dom, "protect", lambda l: False))
    (impl, model), = run_pairs(dom, part, [small], timeout=60, jobs=2)
    if not dv.get("judged"):
        impl, _ = corr.split_info(impl)
    if hasattr(dom, "normalize") and not dv.get("judged"):
        impl, model = dom.normalize(small, impl, model)
    return dict(dv, lines=small, impl=impl, model=model, at=corr.first_diff(impl, model))

def run_check(prop, spec, tier, seed):
    t0 = time.time()
    res = Result()
    known = load_known()
    with Lock():
        okf, msgf = build.regen_facts()
        lean = lean_phase(spec, tier, res)
        okh, msgh = build.build_harness()
    proof_broken = []
    if not okf:
        proof_broken.append("fact extraction failed: " + msgf[-500:])
    if not lean["build_ok"]:
        for e in lean["build_errors"][:10]:
            proof_broken.append("theorem/obligation %s no longer checks (%s:%d: %s)" % (e["decl"], e["file"], e["line"], e["msg"]))
        if not lean["build_errors"]:
            proof_broken.append("lake build of %s failed" % spec["module"])
    for n in lean["missing"]:
        if lean["build_ok"]:
            proof_broken.append("theorem %s not found in the compiled module" % n)
    for n, ax in lean["bad_axioms"].items():
        proof_broken.append("theorem %s depends on disallowed axioms %s" % (n, ax))
    for h in lean["forbidden"]:
        proof_broken.append("forbidden construct: " + h)
    if lean.get("leanchecker_ok") is False:
        proof_broken.append("leanchecker rejected " + spec["module"])

    divergences, stats = [], dict(evaluations=0, traces_validated_against_impl=0, nontrivial=0, distinct_nontrivial=0, samples=[], distribution={})
    if not okh:
        path = write_replay(prop, "harness_build", {"property": prop, "what": "the Go harness no longer builds against /repo", "output": msgh})
        res.violations.append((path, True, "harness build failed"))
    elif not lean["driver_ok"]:
        path = write_replay(prop, "driver_build", {"property": prop, "what": "the Lean model driver does not build", "output": lean.get("build_tail", "")})
        res.violations.append((path, True, "driver build failed"))
    else:
        divergences, stats = corr_phase(prop, spec, tier, seed, res)
        # search phase: when a proof obligation or the correspondence broke, look harder for a failing input
        if (proof_broken or divergences) and not any(classify(prop, d) for d in divergences) and tier == "quick":
            more, stats2 = corr_phase(prop, spec, "thorough", seed + 7919, res, budget_scale=spec.get("search_scale", 0.25))
            divergences += more
            stats["search_evaluations"] = stats2["evaluations"]

    # decide
    reported = set()
    prop_fail = [(d, classify(prop, d)) for d in divergences]
    failing = [(d, why) for d, why in prop_fail if why]
    nonfailing = [d for d, why in prop_fail if not why]
    seen_sig = set()
    # NOTE: the models contain the recorded (known) defects, so a known finding never shows up as a
    # divergence; every divergence is reported. Known findings are reported only by their dedicated
    # witness routines below (spec["known_finding_checks"]), which test the exact recorded witness.
    for d, why in failing:
        sig = why.split("|")[0]
        if sig in seen_sig:
            continue
        seen_sig.add(sig)
        small = shrink_divergence(prop, d, True)
        path = write_replay(prop, "fail_%d" % len(res.violations), {
            "property": prop, "domain": d["part"]["domain"], "harness_extra": d["part"].get("harness_extra"),
            "why": why, "input": small["lines"], "impl_trace": small["impl"], "model_trace": small["model"], "first_diff_at": small["at"]})
        res.violations.append((path, False, why))
        if len(res.violations) >= 3:
            break
    if not failing and (nonfailing or proof_broken):
        payload = {"property": prop, "no_failing_input_found": True, "broken_obligations": proof_broken}
        if nonfailing:
            small = shrink_divergence(prop, nonfailing[0], False)
            payload.update({"correspondence": "model and implementation disagree on this input, but the property's own observables agree",
                            "domain": small["part"]["domain"], "harness_extra": small["part"].get("harness_extra"),
                            "input": small["lines"], "impl_trace": small["impl"], "model_trace": small["model"], "first_diff_at": small["at"]})
        path = write_replay(prop, "unproved", payload)
        res.violations.append((path, True, "; ".join(proof_broken)[:300] or "correspondence broken"))
    elif failing and proof_broken and not res.violations:
        pass

    # property-specific extra checks (witness hunters that are not a model/implementation diff)
    extra_cov = {}
    for fn in (spec.get("extra_checks", []) if okh else []):
        viols, cov_add = fn(prop, tier, seed, bool(proof_broken))
        extra_cov.update(cov_add)
        for payload, nofail, text in viols:
            path = write_replay(prop, "extra_%d" % len(res.violations), dict(payload, property=prop))
            # a concrete witness replaces a 'no failing input found' report of the same run
            if not nofail:
                res.violations = [v for v in res.violations if not v[1]]
            res.violations.append((path, nofail, text))

    # known findings whose witness is checked by a dedicated routine of the spec
    for fn in (spec.get("known_finding_checks", []) if okh else []):
        for line in fn(prop, known):
            if line not in res.known_lines:
                res.known_lines.append(line)

    wall = time.time() - t0
    nobl = len(lean["theorems"])
    cov = collections.OrderedDict()
    cov["obligations"] = nobl
    cov["discharged"] = len(lean["discharged"]) if not proof_broken else len([n for n in lean["discharged"]])
    cov["checker_cmd"] = "cd /verif/lean && lake build %s && lake env lean <#print axioms for every theorem of the module>%s" % (
        spec["module"], " && lake env leanchecker " + spec["module"] if tier == "thorough" else "")
    cov["trusted_base"] = spec.get("trusted_base", []) + [
        "Lean 4.33.0 kernel; axioms used per theorem listed under axioms_per_theorem (subset of propext, Classical.choice, Quot.sound)",
        "correspondence harness (/verif/go/harness, /verif/lean/Driver, /verif/checklib) ties the hand-written model to /repo on the inputs run"]
    if any("Generated/" in p for p in lean.get("sources", [])):
        cov["trusted_base"].append("the fact extractor /verif/go/extract (go/ast, purely syntactic): the tables and control-flow skeletons in Ebu/Generated are regenerated "
                                   "from /repo on this run (files deleted first) and the obligations over them are decided by the kernel; the extractor reports statements "
                                   "in source order with the printed callee / condition text, it does not follow data flow or renamed locals")
    cov["lean_sources_audited"] = lean.get("sources", [])
    cov["theorems"] = lean["theorems"]
    cov["axioms_per_theorem"] = lean["axioms"]
    cov["partial_theorems"] = [n for n in lean["theorems"] if n.endswith("_partial")]
    cov["proof_obligations_broken"] = proof_broken
    cov["leanchecker"] = lean.get("leanchecker_ok")
    cov["evaluations"] = stats["evaluations"]
    cov["distinct_nontrivial"] = stats["distinct_nontrivial"]
    cov["rule"] = spec.get("rule", "")
    cov["traces_validated_against_impl"] = stats["traces_validated_against_impl"]
    cov["divergences"] = len(divergences)
    cov["samples"] = stats["samples"]
    cov["distribution"] = stats["distribution"]
    if "oversize_skipped" in stats:
        cov["oversize_skipped"] = stats["oversize_skipped"]
    if "search_evaluations" in stats:
        cov["search_evaluations"] = stats["search_evaluations"]
    cov["known_findings_reported"] = res.known_lines
    for k, v in spec.get("extra_coverage", lambda: {})().items():
        cov[k] = v
    for k, v in extra_cov.items():
        if k in ("evaluations", "distinct_nontrivial", "samples", "rule") and cov.get("evaluations"):
            continue
        cov[k] = v
    ev = collections.OrderedDict()
    ev["property_id"] = prop
    ev["tier"] = tier
    ev["seed"] = seed
    ev["level"] = "proof"
    ev["coverage"] = cov
    ev["assumptions"] = spec.get("assumptions", [])
    ev["wall_s"] = round(wall, 2)
    ev["violations"] = len(res.violations)
    os.makedirs(EVIDENCE, exist_ok=True)
    with open(os.path.join(EVIDENCE, prop + ".json"), "w") as f:
        json.dump(ev, f, indent=1)
    for line in res.known_lines:
        print(line)
    for path, nofail, text in res.violations:
        print("VIOLATION property=%s replay=%s%s" % (prop, path, " no-failing-input-found" if nofail else ""))
    print("%s %s: theorems %d/%d, correspondence %d/%d traces agree, %d distinct non-trivial, %.1fs" % (
        prop, tier, cov["discharged"], nobl, stats["traces_validated_against_impl"], stats["evaluations"], stats["distinct_nontrivial"], wall))
    return 1 if res.violations else 0

def replay(prop, spec, path):
    payload = json.load(open(path))
    if "input" not in payload:
        print(json.dumps(payload, indent=1)[:4000])
        print("this replay names broken proof obligations only; re-run ./check %s to re-check them" % prop)
        return 0
    with Lock():
        build.regen_facts()
        build.lake_build(["ebudriver"])
        ok, msg = build.build_harness()
    if not ok:
        print("harness build failed:\n" + msg)
        return 1
    part_r = [p for p in spec["parts"] if p["domain"] == payload["domain"]]
    if part_r:
        dom_r = importlib.import_module("checklib.domains." + part_r[0]["domain_module"])
        (impl, model), = run_pairs(dom_r, part_r[0], [payload["input"]], timeout=120, jobs=2)
    else:
        (impl, model), = corr.run_pair(payload["domain"], [payload["input"]], harness_extra=payload.get("harness_extra"), timeout=120, jobs=2)
    impl_full = impl
    impl, info = corr.split_info(impl)
    part0 = [p for p in spec["parts"] if p["domain"] == payload["domain"]]
    if part0:
        dom0 = importlib.import_module("checklib.domains." + part0[0]["domain_module"])
        if hasattr(dom0, "normalize"):
            impl, model = dom0.normalize(payload["input"], impl, model)
        if hasattr(dom0, "judge_info"):
            for _, why in dom0.judge_info(prop, [(payload["input"], info)]):
                print("REPLAY: info-line judge: " + why)
    d = corr.first_diff(impl, model)
    print("input:"); [print("  " + l) for l in payload["input"]]
    print("implementation trace:"); [print("  " + l) for l in impl]
    print("model trace:"); [print("  " + l) for l in model]
    if d is None:
        print("REPLAY: implementation and model agree on this input now")
        return 0
    print("REPLAY: first difference at output line %d: impl=%r model=%r" % (d, impl[d] if d < len(impl) else None, model[d] if d < len(model) else None))
    part = [p for p in spec["parts"] if p["domain"] == payload["domain"]]
    if part:
        dom = importlib.import_module("checklib.domains." + part[0]["domain_module"])
        print("REPLAY: property verdict on the implementation trace: %s" % (dom.property_fails(prop, payload["input"], impl, model) or "not refuted"))
    return 1

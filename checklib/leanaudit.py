"""Audit of the Lean side: theorems of a Props module, their axioms, forbidden constructs."""
import os, re, glob
from .common import *

FORBIDDEN = [r"\bsorry\b", r"\badmit\b", r"^\s*axiom\s", r"native_decide", r"bv_decide", r"implemented_by", r"\bunsafe\s", r"maxHeartbeats\s+0\b"]

def strip_comments(src):
    # remove block comments (possibly nested) and line comments
    out, i, depth = [], 0, 0
    while i < len(src):
        if src.startswith("/-", i):
            depth += 1; i += 2; continue
        if depth and src.startswith("-/", i):
            depth -= 1; i += 2; continue
        if depth:
            if src[i] == "\n": out.append("\n")
            i += 1; continue
        if src.startswith("--", i):
            j = src.find("\n", i)
            i = len(src) if j < 0 else j
            continue
        out.append(src[i]); i += 1
    return "".join(out)

def scan_forbidden(paths):
    hits = []
    for p in paths:
        code = strip_comments(open(p).read())
        for n, line in enumerate(code.splitlines(), 1):
            for pat in FORBIDDEN:
                if re.search(pat, line):
                    hits.append("%s:%d: %s" % (os.path.relpath(p, LEAN), n, line.strip()[:120]))
    return hits

def lean_sources(module=None):
    """source files of `module` and of everything it imports inside this project (transitively);
    all project sources when module is None"""
    if module is None:
        return [p for p in glob.glob(os.path.join(LEAN, "Ebu", "**", "*.lean"), recursive=True)]
    seen, todo = {}, [module]
    while todo:
        m = todo.pop()
        if m in seen:
            continue
        path = os.path.join(LEAN, *m.split(".")) + ".lean"
        if not os.path.exists(path):
            continue
        seen[m] = path
        for line in open(path):
            mm = re.match(r"\s*(?:public\s+)?import\s+(\S+)", line)
            if mm and (mm.group(1).startswith("Ebu.") or mm.group(1).startswith("Driver.")):
                todo.append(mm.group(1))
    return sorted(seen.values())

def theorems_of(module):
    """(namespace-qualified) theorem names declared in a Props module, in order"""
    path = os.path.join(LEAN, *module.split(".")) + ".lean"
    code = strip_comments(open(path).read())
    names, ns = [], []
    # a property's theorems may be split over several files: imports whose name extends the module's name (Ebu.Props.C03Facts
    # for Ebu.Props.C03) are parts of the same property and come first
    for line in code.splitlines():
        m = re.match(r"\s*import\s+(\S+)", line)
        if m and m.group(1) != module and m.group(1).startswith(module):
            names += theorems_of(m.group(1))
    for line in code.splitlines():
        m = re.match(r"\s*namespace\s+(\S+)", line)
        if m: ns.append(m.group(1)); continue
        m = re.match(r"\s*end\s+(\S+)", line)
        if m and ns and ns[-1].split(".")[-1] == m.group(1).split(".")[-1]:
            ns.pop(); continue
        m = re.match(r"\s*(?:@\[[^\]]*\]\s*)?(?:private\s+|protected\s+)?theorem\s+(\S+)", line)
        if m:
            names.append(".".join(ns + [m.group(1)]))
    return names

def print_axioms(module, names):
    """returns {name: [axioms]} for declarations that exist; missing ones are absent"""
    os.makedirs(BUILD, exist_ok=True)
    f = os.path.join(BUILD, "audit_%s.lean" % module.replace(".", "_"))
    with open(f, "w") as fh:
        fh.write("import %s\n" % module)
        for n in names:
            fh.write("#print axioms %s\n" % n)
    rc, so, se = run(["lake", "env", "lean", f], cwd=LEAN, timeout=1200)
    res = {}
    text = so + se
    for m in re.finditer(r"'([^']+)' depends on axioms: \[([^\]]*)\]", text, re.S):
        res[m.group(1)] = [a.strip() for a in m.group(2).replace("\n", " ").split(",") if a.strip()]
    for m in re.finditer(r"'([^']+)' does not depend on any axioms", text):
        res[m.group(1)] = []
    return res, text

def leanchecker(module):
    rc, so, se = run(["lake", "env", "leanchecker", module], cwd=LEAN, timeout=3000)
    return rc == 0, (so + se)[-2000:]

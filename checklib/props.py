"""Registry of the claimed properties: Lean module, correspondence parts, trusted base."""
from .domains import upcast

COMMON_ASSUME = [
    "the hand-written Lean model equals the Go code only on the inputs the correspondence ran (differential testing, reported under coverage)",
]

PROPS = {
    "C16": dict(
        module="Ebu.Props.C16",
        parts=[dict(name="upcast16", domain="upcast", domain_module="upcast", gen=upcast.gen_c16, n_quick=250, n_thorough=12000)],
        rule="cases = exhaustive registration sequences over 3 names (length<=2 quick, <=3 thorough) + random sequences over up to 8 names with clears and raw upcasters returning undeclared types; non-trivial = a cycle was rejected or an upcast function ran; distinct = distinct implementation traces",
        trusted_base=["Go maps modelled as association by key with per-key registration order", "encoding/json round trip of []int payloads"],
        assumptions=COMMON_ASSUME + ["racing registrations: validation+insertion happen in one write-locked section (extracted lock facts, see C03); the LTS argument is sequential consistency of that lock"],
    ),
    "C17": dict(
        module="Ebu.Props.C17",
        parts=[dict(name="upcast17", domain="upcast", domain_module="upcast", gen=upcast.gen_c17, n_quick=300, n_thorough=15000)],
        rule="cases = chains, branches, several upcasters per source and random graphs over <=6 names (+ typed upcasters), one failing step injected at a random position, every type replayed; non-trivial = a chain of >=2 steps ran or the error handler fired; distinct = distinct implementation traces",
        trusted_base=["encoding/json round trip of []int payloads", "payload transformation abstracted to 'append the upcaster's tag'"],
        assumptions=COMMON_ASSUME,
    ),
}

"""Registry of the claimed properties: Lean module, correspondence parts, trusted base."""
from .domains import upcast, bus, store, state, names, resume, conc, durable, locks, shutdown, stress

COMMON_ASSUME = [
    "the hand-written Lean model equals the Go code only on the inputs the correspondence ran (differential testing, reported under coverage)",
]

PROPS = {
    "C16": dict(
        module="Ebu.Props.C16", ready=True,
        level_text="Proof: the cycle check is proved to decide reachability over the declared edges (soundness, completeness, termination of the recursion), acceptance is characterised exactly, acyclicity is an invariant of every sequence of register/clear/clearType, and apply is proved to terminate within |registry|+1 upcaster calls for EVERY registry and every choice of returned type names. All quantifiers unbounded. The model is tied to upcast.go by differential runs (exhaustive small registration sequences + random).",
        level_note="Trusted: Lean kernel + propext/Quot.sound; the correspondence harness; Go map/slice semantics as modelled (per-source registration order). Racing registrations are covered only through the lock-discipline facts of C03 (validation and insertion in one write-locked section), not by this check's sequential correspondence — partial for the 'schedules' quantifier.",
        parts=[dict(name="upcast16", domain="upcast", domain_module="upcast", gen=upcast.gen_c16, n_quick=250, n_thorough=12000)],
        rule="cases = exhaustive registration sequences over 3 names (length<=2 quick, <=3 thorough) + random sequences over up to 8 names with clears and raw upcasters returning undeclared types; non-trivial = a cycle was rejected or an upcast function ran; distinct = distinct implementation traces",
        trusted_base=["Go maps modelled as association by key with per-key registration order", "encoding/json round trip of []int payloads"],
        assumptions=COMMON_ASSUME + ["racing registrations: validation+insertion happen in one write-locked section (extracted lock facts, see C03); the LTS argument is sequential consistency of that lock"],
    ),
    "C17": dict(
        module="Ebu.Props.C17", ready=True,
        level_text="Proof: on success apply returns exactly the composition of the first-registered upcaster of each successive type (relational spec Chain), on any failure the original data and type, the error handler is called exactly once for a failing upcast function with that step's type and input; completeness for honest acyclic registries; replay passes offset/timestamp through. Unbounded over graphs, payloads and failure positions.",
        level_note="Trusted: Lean kernel + propext/Quot.sound; correspondence harness; payload transformation abstracted to 'append the upcaster tag' plus an untouched optional field (typed upcasters are exercised with real struct types so decode/encode staleness is visible); encoding/json.",
        parts=[dict(name="upcast17", domain="upcast", domain_module="upcast", gen=upcast.gen_c17, n_quick=300, n_thorough=15000)],
        rule="cases = chains, branches, several upcasters per source and random graphs over <=6 names (+ typed upcasters), one failing step injected at a random position, every type replayed; non-trivial = a chain of >=2 steps ran or the error handler fired; distinct = distinct implementation traces",
        trusted_base=["encoding/json round trip of []int payloads", "payload transformation abstracted to 'append the upcaster's tag'"],
        assumptions=COMMON_ASSUME,
    ),
}

BUS_TB = ["handler/filter/hook bodies are restricted to the action language of M1 (subscribe, unsubscribe, clear, clearAll, publish, cancel, panic, queries, readLog)",
          "async goroutines are run in spawn order at `drain` (one legal schedule, forced through the verif hook); other schedules are C02/C04/C06/C07's interleaving model",
          "Go maps modelled as functions from keys to slices; reflect.Value.Pointer() identity modelled by `hid`", "encoding/json of the harness event structs"]

BUS_TEXT = {
 "C01": ("Proof, for every program of the model (arbitrary re-entrant handler bodies, every fuel): the sharded registry refines the flat per-type specification for EVERY routing function (so a handler of another type is never reached, however many types share a shard); each registry call is characterised exactly (Subscribe appends, Unsubscribe removes exactly the first registration with that code pointer, Clear/ClearAll, queries); the handlers a publish enters directly form a sublist of the snapshot taken when it began (order, at-most-once, published value and type, none subscribed during delivery), and with a background context every accepting registration of the snapshot is invoked or parked whatever the other handlers do.",
         "Trusted: Lean kernel (+propext, Classical.choice, Quot.sound), the correspondence harness, Go maps as functions, reflect.Value.Pointer() identity as `hid`. Handler bodies are limited to the model's action language. Known finding: Unsubscribe identifies handlers by code pointer (two closures from one function literal are indistinguishable) — the theorem `unsubscribe_spec` is stated in terms of that identity."),
 "C05": ("Proof: no panic ever reaches the top level of a run; per invocation the panic handler is called exactly once iff the body panicked (with event, handler kind and panic value) and the panic is cleared; delivery completeness is proved for arbitrary handler bodies, panicking ones included; a fired once-handler (panicking or not) is never registered at the end of a run.",
         "Trusted: as C01. 'Sequential handler can run again / Wait still returns' concern the mutex and the in-flight counter, which live in the interleaving model (C06/C07); here they are covered by the correspondence (wait op, repeated publishes) only."),
 "C08": ("Proof: a publish with an already-cancelled context enters and parks no handler, consumes no once handler and leaves the registry alone; once the context is cancelled the rest of the dispatch loop is inert; the events of a publish are pre ++ mid ++ post with each configured before-hook exactly once in pre (before every handler entry), each after-hook exactly once in post (after every synchronous handler returned) and no hook of this publish in between; context-aware handlers receive the publish context.",
         "Trusted: as C01; context values/cancellation propagation through context.WithValue/WithCancel is Go's, sampled by the harness (root identity read back from the received context)."),
 "C09": ("Proof: the bus configuration is a function of which options were given, not of their order (every permutation with one store gives the same bus); persistEvent appends exactly one record per publish of an encodable event, before any handler entry, and the log the handlers see contains it; in every run the offsets handed out are 1,2,3,… (distinct, increasing) and the log has one record per successful append.",
         "Trusted: as C01 + encoding/json of the harness events. Concurrent publishers (N publishes → N records under every interleaving) rely on storeMu being held across Append (extracted lock facts, C03) and are sampled by the concurrent harness, not proved here — partial for the 'schedules' quantifier."),
 "C13": ("Proof: persistEvent case by case (no store / unencodable / accepted / rejected): a failed append leaves log and lastOffset unchanged, is attempted once, and is reported exactly once iff a handler is set; two runs differing only in the fault script have identical traces once persistence events are removed (delivery independent of persistence); offsets keep increasing across failures; no panic escapes.",
         "Trusted: as C09; timeouts are modelled as failing appends (the harness uses a store that hangs until the persistence timeout expires)."),
 "C20": ("Proof: whatever one API call appends to the trace is balanced and properly nested against any stack of open spans (each complete carries the id its start returned); span ids are never reused; handler complete carries err iff the body panicked, persist complete err iff the append failed, none for unencodable events; OnPublishStart/Complete bracket the publish and handler/persist spans opened at that depth are children of the publish span; for an OpenTelemetry-style implementation every started span is ended exactly once and the counters equal the true numbers of handler runs, panics, persist attempts and failures.",
         "Trusted: as C01, plus the OpenTelemetry SDK (span recorder, manual metric reader): the real otel.Observability runs in ~40% of the C20 cases and its started/ended spans, parent edges, error statuses and the five counters must equal the summary M9 computes from the model's callback trace (spans_ended_exactly_once, counters_truthful are proved about that summary)."),
}

def _bus(prop, module, rule, nq=400, nt=20000):
    return dict(module=module, ready=True, level_text=BUS_TEXT[prop][0], level_note=BUS_TEXT[prop][1],
                parts=[dict(name="bus" + prop, domain="bus", domain_module="bus", gen=bus.make_gen(prop), n_quick=nq, n_thorough=nt, chunk=128)],
                rule=rule, trusted_base=BUS_TB, assumptions=COMMON_ASSUME)

PROPS.update({
    "C01": _bus("C01", "Ebu.Props.C01", "random programs over 40 Go event types (12 pairs share one of the 32 shards; every case uses at least one colliding pair), 12 handler identities, all Once/Async/Sequential/filter/context-aware combinations, handler bodies nested to depth 3 that subscribe/unsubscribe/clear/publish/cancel/panic; non-trivial = >=2 handler entries and a re-entrant registry operation or query from inside a handler; distinct = distinct implementation traces"),
    "C05": _bus("C05", "Ebu.Props.C05", "as C01 with panicking bodies in ~half of the handlers and a panic handler set in 80% of cases; non-trivial = the panic handler fired or a panicking body ran next to other handlers"),
    "C08": _bus("C08", "Ebu.Props.C08", "as C01 with dead / fresh / inherited contexts, cancel actions inside handlers, all 16 hook combinations; non-trivial = hooks fired, a handler ran and a context was cancelled"),
    "C09": _bus("C09", "Ebu.Props.C09", "as C01 on a persistent bus: options in random order (WithStore anywhere, sometimes twice), unencodable events, store faults, readLog from inside handlers; non-trivial = a record was appended and a handler ran"),
    "C13": _bus("C13", "Ebu.Props.C13", "as C09 with a fault script failing ~35% of appends (including the first, and consecutive ones) and 20% unencodable events; non-trivial = an append failed or the persistence error handler fired"),
    "C20": _bus("C20", "Ebu.Props.C20", "as C01 with a recording Observability always installed, persistence in 70% of cases; non-trivial = at least 6 callback events"),
})

STORE_TB = ["database/sql + modernc SQLite (statement semantics, AUTOINCREMENT)", "the durable-streams reference server (chunked reads) as modelled", "records are opaque ids; type/data/timestamp fidelity is checked by the harness on every returned event"]

PROPS.update({
    "C10": dict(module="Ebu.Props.C10", ready=True,
        parts=[dict(name="store10", domain="store", domain_module="store", gen=store.gen_c10, n_quick=250, n_thorough=8000, chunk=32)],
        rule="random op sequences (append/read/save/load/use other instance) on memory, SQLite (plain and batched, in-memory and file) and durable-streams (chunk sizes 1,2,3,5,all) with limits in {-1,0,1,2,3,7,100}, resume points = next offsets, any returned event's offset, offsets of earlier appends and garbage strings; every returned event is checked against the appended type (incl. empty/unicode/long), JSON document and timestamp instant (7 zones/precisions); non-trivial = >=2 non-empty reads",
        trusted_base=STORE_TB, assumptions=COMMON_ASSUME,
        known_finding_checks=[store.known_c10],
        level_text="Proof: zero-padded offsets order like numbers (memory, durable-streams server); the memory and SQLite stores satisfy the paging contract PagedSpec for every log (SQLite with offsets compared numerically, garbage cursors rejected, ParseInt round trip); ANY store satisfying the contract reproduces the log under every chain of reads with every limits, resumed from next offsets or from any returned event's offset; streaming = unlimited read; offsets tables. Known findings are proved as witness theorems (sqlite_offsets_not_lex, ds_limit_loses_events, ds_event_offset_not_resumable) with the partial statement that does hold (ds_read_untruncated_partial).",
        level_note="Trusted: Lean kernel + 3 standard axioms; correspondence harness; SQL engine and HTTP server/client below the stores. Timestamp/type/data fidelity and isolation of separately created stores are carried by the correspondence only (the model stores what it is given). KNOWN FINDINGS reported on every run: SQLite offsets not lexicographic; durable-streams Read truncation / synthetic offsets."),
    "C11": dict(module="Ebu.Props.C11", ready=True,
        parts=[dict(name="store11", domain="store", domain_module="store", gen=store.gen_c11, n_quick=250, n_thorough=8000, chunk=32)],
        rule="logs of length 0..30 on all three stores, Replay from the oldest offset or after any appended event, batch sizes {-1,0,1,2,3,5,12,100}, streaming and paged (ReadStream hidden) paths, SQLite stream batching 0/1/2/3/7, one fault per replay: callback error at k, cancellation at k, j-th Read fails; non-trivial = a replay delivered something",
        trusted_base=STORE_TB + ["database/sql notices a cancelled context asynchronously: the model lists the rows that may still be delivered (see DESIGN)"], assumptions=COMMON_ASSUME,
        known_finding_checks=[store.known_c11],
        level_text="Proof: streaming replay delivers every event once in order and returns nil; under any fault it delivers a gap-free prefix and returns nil only after everything; SQLite batched streaming is complete for every batch size >= 1 and a gap-free prefix under any fault; the paging fallback is complete for every batch size over every store satisfying the paging contract (memory and SQLite proved to) and a prefix under any fault. Known finding proved as witness (ds_replay_loses_events) with the partial statement ds_replay_untruncated_partial.",
        level_note="Trusted: as C10. 'Replay never appends and never invokes handlers' is structural in the model (Replay has no access to the registry) and checked by the harness counters appends=0 handlers=0."),
    "C18": dict(module="Ebu.Props.C18", ready=True,
        level_text="Proof: for every log and every (entity type, key), the value the materializer holds equals the declarative lastWrite of the log (last successfully applied insert/update not followed by a delete of the key or a reset), in strict and non-strict mode; snapshot markers, unknown operations/controls and unregistered types change no collection; reset empties all; LastOffset is the offset of the last successfully applied event; a log applied in two sessions, the second resumed from LastOffset, gives the state of one session; composite keys are injective per entity type (keys containing '/').",
        level_note="Trusted: Lean kernel + 3 standard axioms; correspondence harness; encoding/json decoding of entity documents (abstracted to 'value decodes or not'); one backing store per collection. Resumption over the durable-streams store inherits the known finding of C10 (synthetic offsets), so the state harness uses that store only for one-session round trips.",
        parts=[dict(name="state18", domain="state", domain_module="state", gen=state.make_gen("C18"), n_quick=300, n_thorough=10000, chunk=64)],
        rule="random message sequences over 3 registered-able entity types (one with a custom name containing '/') + an unregistered one, 9 keys incl. '/', 'b/c', unicode, strict and non-strict, memory/SQLite/durable-streams, replays resumed from LastOffset at random points and a fresh one-session replay at the end; non-trivial = a collection is non-empty at some dump and a delete/reset/control occurred",
        trusted_base=["encoding/json decoding of entity documents", "one backing store per collection"], assumptions=COMMON_ASSUME),
    "C19": dict(module="Ebu.Props.C19", ready=True,
        level_text="Proof: decode(encode m) = m for helper-built change messages (all 16 option/old-value combinations) and control messages over a JSON abstraction with Go's case-insensitive, last-key-wins, null-is-zero decoding; the encoded object has exactly the state-protocol field names with omitempty; non-objects are rejected; an Apply that returns an error leaves every collection and LastOffset unchanged, and errors are characterised exactly. Byte-level robustness (arbitrary bytes never panic) is sampled by a fuzz judge on the implementation: partial there.",
        level_note="Trusted: Lean kernel + 3 standard axioms; correspondence harness (30 hostile documents classified by the model, wire bytes of every helper-built message parsed with Lean.Data.Json and compared with the model's encoder); encoding/json itself. 'Never panics on arbitrary bytes' is a statement about encoding/json plus ~30 lines of Go: sampled, not proved.",
        parts=[dict(name="state19", domain="state", domain_module="state", gen=state.make_gen("C19"), n_quick=300, n_thorough=10000, chunk=64)],
        rule="as C18 plus a table of 30 hostile/odd documents (case variants, duplicate keys, wrong types, nulls, missing parts) classified by the model, every helper-built message's JSON bytes parsed and compared with the model's encoder, and a byte-level fuzz of Apply (mutated + random bytes) judged on the implementation; non-trivial = raw documents or option combinations present",
        trusted_base=["encoding/json (syntax, case-insensitive field matching as transcribed)"], assumptions=COMMON_ASSUME),
})

PROPS.update({
    "C15": dict(module="Ebu.Props.C15", ready=True,
        parts=[dict(name="names15", domain="names", domain_module="names", gen=names.gen, n_quick=1, n_thorough=1)],
        rule="exhaustive: the 20 instantiated shapes (incl. a typed nil pointer event, two shapes on the SQLite store, one with a custom name that looks like a number, and named integer / slice / map event types with a custom name) (value/pointer x no namer / value-receiver namer / pointer-receiver namer, state.ChangeMessage and state.ControlMessage by value and pointer, and namers that compute the name from the event's fields) x 6 routes (EventType, persisted name, SubscribeWithReplay, RegisterUpcast source, RegisterUpcast target, the persisted name and typed match after a ReplayWithUpcast went over the record), each shape alone and in 3 random orders; non-trivial = a typed replay subscription matched a persisted event; distinct = distinct implementation traces",
        trusted_base=["reflect.Type.Implements and dynamic type assertion follow Go's method-set rule (the model encodes the language rule; the harness validates it against the compiler on every shape)"],
        assumptions=COMMON_ASSUME + ["events are published as non-nil values; for the typed routes (SubscribeWithReplay, RegisterUpcast) EventTypeName does not depend on the value – they have no value to ask and use the zero value's name (theorem names_agree_needs_constName shows the hypothesis is needed); the persisted name equals EventType for every shape, value-dependent ones included"],
        extra_coverage=lambda: {"exhaustive": True},
        level_text="Proof over the whole (finite) quantifier: the persisted name equals EventType's for every shape and is not rewritten by replaying (persisted_is_eventType); for every shape with a value-independent name and every route the name used equals EventType's (names_agree), hence a persisted event is matched by its typed replay subscription and typed upcasters; the custom name is used exactly per Go's method-set rule. The model is validated against the compiler by instantiating every shape as a real Go type and observing the name each route actually uses (exhaustive).",
        level_note="Trusted: Lean kernel (+propext); the harness; Go reflection semantics. The theorem is only as good as the model's claim that each route uses the mechanism it names; that claim is what the exhaustive correspondence checks on every run."),
})

PROPS.update({
    "C12": dict(module="Ebu.Props.C12", ready=True,
        parts=[dict(name="resume12", domain="resume", domain_module="resume", gen=resume.gen, n_quick=400, n_thorough=15000, chunk=64)],
        rule="random histories of publishes (3 event types), SubscribeWithReplay calls (2 ids, each with its own type, sometimes with a handler that publishes during the replay) and restarts on the memory and SQLite (file) stores, under a plan: the k-th store operation (Append/LoadOffset/ReadStream/SaveOffset, counted over the whole history) fails and/or the process dies right after the k-th store operation, k uniform over the history; every history ends with restart + resubscribe so that coverage is observable; non-trivial = something was delivered and a restart happened mid-history",
        trusted_base=["the store is an append-only log with resumable offsets (proved of memory and SQLite in C10)", "process death is modelled as 'everything after the crash point is unobservable and unpersisted' on the same store object (real SIGKILL durability is C14)"],
        assumptions=COMMON_ASSUME + ["serialised histories: publishes do not overlap each other or a running SubscribeWithReplay (the overlapping case is the recorded finding)"],
        known_finding_checks=[resume.known_c12],
        level_text="Proof: in fault-free well-formed histories what a subscription has been given is always a prefix of the persisted events of its type in log order, each once, and everything once it is live; under ANY plan (crash after any store operation and/or failure of any single store operation) the persisted events of its type are, in order, a subsequence of what a live subscription was given (nothing lost, nothing reordered); the saved offset never moves backwards when no id is subscribed while it is already live, and never exceeds the log; different ids are independent. Known finding proved as witness theorems: events published during SubscribeWithReplay are lost (publish_during_replay_lost), and with a duplicate live id the saved offset can move backwards (saved_offset_monotone_counterexample).",
        level_note="Trusted: Lean kernel + 3 standard axioms; correspondence harness (counting store wrapper injects the failure / death); C10 for the stores. The 'schedules' part of the quantifier (a publish interleaved at any point of a running SubscribeWithReplay from another goroutine) is covered only in its re-entrant form (the handler publishes during the replay) – partial. KNOWN FINDINGS reported on every run."),
})

PROPS.update({
    "C14": dict(module="Ebu.Props.C14", ready=True,
        parts=[dict(name="kill14", domain="durable", domain_module="durable", gen=durable.gen, n_quick=25, n_thorough=900, chunk=4, jobs=8)],
        rule="a child process appends (and saves the offset every 0/1/2/5 appends) on a SQLite file, printing an acknowledgement after every returned call; the parent SIGKILLs it after 1..40 acknowledgements plus 0..3000 microseconds, reopens, and hands what it finds to the model's judgement (recoveredOk: acknowledged events in order, gap-free positions, at most the in-flight one extra; acknowledged saved offset not lost); histories chain kills, clean appends+close and double reopens; non-trivial = at least one kill",
        trusted_base=["ASSUMED, sampled by the kill harness, not proved: a single SQL statement is atomic, a committed statement survives SIGKILL (WAL mode, synchronous=NORMAL), AUTOINCREMENT never reuses a rowid", "power loss / fsync behaviour is outside both model and harness"],
        assumptions=COMMON_ASSUME,
        level_text="Proof over every sequence of appends, offset saves, kills (between or during an operation, the in-flight statement committed or not), clean closes and reopenings: positions are gap-free 1..n in order; every acknowledged event is in the log with its acknowledged offset, in acknowledgement order; an acknowledged saved offset is what LoadOffset returns until a later save of that id; new appends get larger offsets than everything before; opening an existing database is idempotent and never touches the rows. The assumptions about SQLite itself are sampled by real SIGKILLs and judged with the model's own predicate.",
        level_note="PARTIAL: durability across process death is an assumption about database/sql + modernc SQLite that the theorems rest on and the kill harness samples (25 kill histories quick, 900 thorough); it is not proved. Trusted: Lean kernel + 3 standard axioms; the harness."),
})

CONC_TB = ["goroutine scheduling = arbitrary interleaving at yield points (API call, filter, handler entry/exit, and the verifYield hook points after every lock release and before every blocking call); what happens between two yield points of one goroutine is atomic in the model and is made atomic on the implementation by the controlled scheduler",
           "races INSIDE a critical section and the Go memory model are outside this model (C03)", "handler bodies: publish events of a leaf type; no subscribe/unsubscribe from handlers in this model (that is M1's business)",
           "sync.Mutex / sync.Cond semantics of the Go runtime"]

def _conc(prop, text, note, rule):
    return dict(module="Ebu.Props." + prop, ready=True, level_text=text, level_note=note, rule=rule,
                parts=[dict(name="conc" + prop, domain="conc", domain_module="conc", gen=conc.make_gen(prop), n_quick=400, n_thorough=12000, chunk=32)],
                trusted_base=CONC_TB, assumptions=COMMON_ASSUME,
                technique="Lean 4 invariants over an interleaving model (every program, thread count, schedule), tied to /repo by forcing real goroutines through model-chosen schedules (controlled scheduler over verif hook points, with blocked-probes)")

CONC_RULE = "2-4 program threads with 2-6 operations each (subscribe with every Once/Async/Sequential/filter combination and bodies that publish further events, unsubscribe, clear, publish with background or shared cancellable contexts, cancel, wait, count) on 1-2 shared event types; the model picks a schedule with a seeded PRNG (step = one goroutine from yield point to yield point) and, with probability 0-40%, probes a goroutine it considers blocked (sequential mutex, ticket turn, Wait); the harness forces the real goroutines through that schedule and both sides print what every step makes observable; "
PROPS.update({
    "C02": _conc("C02", "Proof for every reachable state of the interleaving model: no subscription is lost or duplicated (registrations + removals = subscriptions, identities unique); a publish snapshots exactly the current registrations of its type; every activation only dispatches what is left of its own snapshot (each entry at most once, in order, right type); plus the once and sequential invariants shared with C04/C07. The real-time clauses of the property follow because subscribe, removal and snapshot are single atomic steps between the call and the return of their API call.",
                 "Trusted: Lean kernel + 3 standard axioms; the controlled scheduler of the harness; " + CONC_TB[0], CONC_RULE + "non-trivial = at least two threads stepped and a handler ran"),
    "C04": _conc("C04", "Proof for every schedule: the handler of a Once registration is entered at most once in the life of the bus, and only after its compare-and-swap succeeded; a delivery step whose filter rejects the event, or that finds the context cancelled, does not consume the registration. (Sequential re-entrant histories: M1's dead_publish_inert / deliver_rejected_inert / once_retired_after_run, C08/C05.)",
                 "Trusted: as C02. 'Exactly once when eligible' is proved in the sequential model (publish_complete: claimed ⇒ executed; once_retired_after_run) and sampled under schedules; the residual window 'claimed, then cancelled before the handler started' is the property's own 'context stays live' condition.", CONC_RULE + "non-trivial = a once claim happened"),
    "C06": _conc("C06", "Proof for every schedule: the in-flight counter equals the number of async goroutines that exist and are not finished plus those a publisher has counted in but not yet started (the add happens in the publisher, before the goroutine exists); hence Wait can only return in a state with no unfinished async invocation at all – whoever published it, handlers publishing from handlers included.",
                 "Trusted: as C02. Shutdown (nil only after Wait, store closed only then, ctx error ⇒ store not closed) is not in the model: not claimed by a theorem, covered by no correspondence yet – PARTIAL for the Shutdown sentence of the property.", CONC_RULE + "non-trivial = goroutines were spawned and a Wait was probed or finished"),
    "C07": _conc("C07", "Proof for every schedule: at most one activation is inside a Sequential registration, exactly when its mutex is held; for Async+Sequential registrations tickets are handed out 0,1,2,… in dispatch order and turns are taken 0,1,2,… in that same order, so events published one after another by one goroutine are processed in publish order (the ticket lock added by the fix: commit).",
                 "Trusted: as C02.", CONC_RULE + "non-trivial = a goroutine reached the sequential mutex or a ticket turn"),
})

PROPS.update({
    "C03": dict(module="Ebu.Props.C03", ready=True, parts=[], extra_checks=[locks.race_stress],
        rule="",
        trusted_base=["the fact extractor /verif/go/extract (purely syntactic go/ast walk: tracked fields by name per file, locks by <expr>.mu.Lock/RLock/Unlock/RUnlock incl. defer, branch-insensitive lock sets merged by intersection, local aliases of maps/slices followed, helper entry lock sets for wouldCreateCycle/hasCycleDFS taken from the call site in register); it is sound only for these patterns",
                      "the Go memory model: accesses properly guarded by sync.Mutex/RWMutex or sync/atomic are race free", "sync.Mutex, sync.RWMutex, sync.Cond semantics as modelled in Ebu/Model/Locks.lean",
                      "the sqlite store and the durablestream store have no shared mutable Go state of their own (they delegate to database/sql and an HTTP client): not in the fact table"],
        assumptions=["configuration setters complete before concurrent use (the property excludes them)", "deadlock freedom: theorem `deadlock_free` about the interleaving model M2 (every program, any number of goroutines, every schedule; hypothesis = the one documented exception, stated as a rank on event types); the model is tied to the code by the controlled-scheduler correspondence of C02/C06/C07 (a hang is reported there), by the control-flow obligations `flow_*` on the regenerated skeleton of PublishContext / callHandlerWithContext, by the lock-free-callback and lock-order facts, and by the stress watchdog; the exception (a synchronous Sequential handler re-entering itself) is excluded from all generators"],
        level_text="Proof (generic): a reachable RW mutex never has two goroutines holding it in conflicting modes, hence under the lock discipline no two goroutines can be positioned at conflicting non-atomic accesses to one location. Proof obligations on the CURRENT source, regenerated by the extractor on every run and evaluated by the kernel: every access to shared state (registry shards, lastOffset, ticket counters, in-flight counter, memory store, upcast registry, materializer, state store) holds its guard lock in the right mode; handlers/filters/hooks/error handlers are called with no bus lock held; store appends are serialised by storeMu; upcaster validation+insertion is one write-locked section; locks nest along one order; the shard index is always in range and equals the modulo. Proof (M2, every program, any number of goroutines, every schedule at yield-point granularity): DEADLOCK FREEDOM - while some goroutine is unfinished some goroutine can step - under the hypothesis that no synchronous Sequential handler publishes, directly or through other synchronously dispatched handlers, an event delivered back to itself (a rank on event types; the hypothesis is shown satisfiable and necessary by a reachable deadlock of two cross-publishing Sequential handlers). Obligations on the regenerated control-flow skeleton of the current source: snapshot under the read lock released before dispatch, in-flight count taken by the publisher and returned by a first-registered defer, ticket taken by the publisher / turn released by defer, Sequential mutex unlocked by defer. The race detector stress run only searches for a concrete witness when an obligation breaks (and runs as supporting validation).",
        level_note="PARTIAL: soundness of the syntactic extractor and the Go memory model are trusted, not proved; deadlock freedom is a theorem about the model M2 (bus locks, Sequential mutexes, ticket lock, Wait), not about the code: the tie is the controlled-scheduler correspondence, the control-flow and lock obligations on the regenerated facts, and the stress watchdog; store-internal blocking (database/sql pool, HTTP) is outside M2 and covered by pubstore03 only.",
        technique="Lean 4: RW-mutex invariant + discipline⇒no-race theorem + deadlock-freedom theorem of the interleaving model (well-founded waits-for measure); obligations decided by the kernel on fact tables and control-flow skeletons regenerated from the Go source by a go/ast extractor; race-detector stress as witness search"),
})

# C09's concurrent clause: an implementation-side judge under real concurrency (N publishes -> N records, increasing offsets)
PROPS["C09"]["parts"].append(dict(name="pubstore09", domain="store", domain_module="store", gen=store.gen_pub, n_quick=60, n_thorough=2500, chunk=16))
PROPS["C12"]["parts"].append(dict(name="racepub12", domain="resume", domain_module="resume", gen=resume.gen_racepub, n_quick=6, n_thorough=200, chunk=4))
PROPS["C09"]["parts"].append(dict(name="racepub09", domain="resume", domain_module="resume", gen=resume.gen_racepub, n_quick=6, n_thorough=200, chunk=4))

# C13 over the real durable-streams store: lost acknowledgements (the bus-level theorems are about a store that says no;
# here the store said yes and the answer got lost)
PROPS["C13"]["parts"].append(dict(name="flaky13", domain="store", domain_module="store", gen=store.gen_flaky, n_quick=30, n_thorough=600, chunk=8))
PROPS["C13"]["parts"].append(dict(name="pubdead13", domain="store", domain_module="store", gen=store.gen_pubdead, n_quick=30, n_thorough=600, chunk=8))
# C03's "replay … use the bundled stores … no such use deadlocks": publishes from inside replays over the three real stores
PROPS["C03"]["parts"].append(dict(name="pubstore03", domain="store", domain_module="store", gen=store.gen_pub, n_quick=40, n_thorough=800, chunk=16))

# C03's "handlers, filters and hooks may call back into the same bus without deadlocking": the sequential machine with many
# Sequential handlers (also synchronous ones that publish to other handlers), re-entrant registry calls, shared option values
PROPS["C03"]["parts"].append(dict(name="bus03", domain="bus", domain_module="bus", gen=bus.make_gen("C03"), n_quick=200, n_thorough=6000, chunk=128))

# C09: a store closed by a Shutdown that gave up would swallow the records of everything published afterwards
PROPS["C09"]["parts"].append(dict(name="shutdown09", domain="shutdown", domain_module="shutdown", gen=shutdown.gen, n_quick=20, n_thorough=400, chunk=8, jobs=8))
PROPS["C03"]["parts"].append(dict(name="livechain03", domain="resume", domain_module="resume", gen=resume.gen_livechain, n_quick=8, n_thorough=200, chunk=4))
PROPS["C05"]["parts"].append(dict(name="livepanic05", domain="resume", domain_module="resume", gen=resume.gen_livepanic, n_quick=10, n_thorough=200, chunk=5))
PROPS["C03"]["parts"].append(dict(name="shutdown03", domain="shutdown", domain_module="shutdown", gen=shutdown.gen, n_quick=20, n_thorough=400, chunk=8, jobs=8))

# C04 on the sequential machine as well: once handlers with filters, dead contexts (cancelled and deadline-expired), the
# OpenTelemetry adapter as Observability, chained once handlers, option values shared between subscriptions
PROPS["C04"]["parts"].append(dict(name="bus04", domain="bus", domain_module="bus", gen=bus.make_gen("C04"), n_quick=200, n_thorough=6000, chunk=128))

# C07's "every event is still delivered to it exactly once": the sequential machine with mostly Sequential handlers,
# panicking bodies included (a Sequential handler that panics must give its mutex back)
PROPS["C07"]["parts"].append(dict(name="bus07", domain="bus", domain_module="bus", gen=bus.make_gen("C07"), n_quick=200, n_thorough=6000, chunk=128))

# C06's "every delivery to an Async handler whose publish context stays live runs exactly once": the sequential machine with
# mostly Async handlers on persistent buses with a persistence timeout (the goroutines run after the publish has returned)
PROPS["C06"]["parts"].append(dict(name="bus06", domain="bus", domain_module="bus", gen=bus.make_gen("C06"), n_quick=200, n_thorough=6000, chunk=128))

# real-concurrency judges (witness search inside single API calls, where the controlled scheduler has no yield point)
for _p, _sc in (("C02", "regs"), ("C04", "once"), ("C06", "waiters"), ("C07", "seq"), ("C03", "waiters"), ("C08", "hooks"), ("C02", "types"), ("C01", "regs"), ("C01", "types"), ("C20", "obs")):
    PROPS[_p]["parts"].append(dict(name="stress" + _p[1:] + _sc, domain="stress", domain_module="stress", gen=stress.make_gen(_sc), n_quick=10, n_thorough=(60 if _sc == "hooks" else 200), chunk=2, jobs=4, timeout=900))

# C06's Shutdown sentence: model M2s + a timing-based harness (blocked async handlers, context expiry, counting Close)
PROPS["C06"]["parts"].append(dict(name="shutdown06", domain="shutdown", domain_module="shutdown", gen=shutdown.gen, n_quick=40, n_thorough=1500, chunk=8, jobs=8))
PROPS["C06"]["level_note"] = PROPS["C06"]["level_note"].replace("Shutdown (nil only after Wait, store closed only then, ctx error ⇒ store not closed) is not in the model: not claimed by a theorem, covered by no correspondence yet – PARTIAL for the Shutdown sentence of the property.",
    "Shutdown is a separate small model (M2s: nil/close-error only with nothing in flight and exactly one Close; context error ⇒ no Close; blocks iff work in flight and context live), tied by a harness that holds async handlers at a gate and waits 60 ms to call a Shutdown 'blocked' (timing based; the case where both select branches are ready is excluded because Go picks at random).")

# control-flow obligations (M12): every property whose module states `flow_*` theorems says so in its claim
for _p in ("C01", "C02", "C03", "C04", "C05", "C06", "C07", "C08", "C09", "C10", "C11", "C12", "C13", "C14", "C16", "C17", "C18", "C19", "C20"):
    PROPS[_p]["level_text"] = PROPS[_p].get("level_text", "") + (" Obligations `flow_*` on the control-flow skeleton regenerated from the current source on every run "
        "(order and nesting of the statements the model transcribes: go/extract/pipeline.go -> Ebu/Generated/Flow.lean, predicates in Ebu/Spec/Flow.lean) are decided by the kernel.")
PROPS["C06"]["level_text"] += (" M2 with its trace: every async goroutine performs at most one asynchronous delivery (the one it was started for) and exactly one once it has finished with a live "
    "publish context; a state from which no goroutine can step is quiescent with everything delivered; under a strict rank every schedule is finite (explicit bound) and can be continued to a quiescent end: Wait returns after finitely many steps whatever the scheduler does.")
PROPS["C07"]["level_text"] += " Async(+Sequential) deliveries: exactly once per dispatched event (trace theorem); no invocation starves (progress theorem under the rank hypothesis)."

# C07: the wake-up discipline of the ticket lock (M2t) under real concurrency
PROPS["C07"]["parts"].append(dict(name="stress07seqburst", domain="stress", domain_module="stress", gen=stress.make_gen("seqburst"), n_quick=8, n_thorough=40, chunk=1, jobs=8, timeout=900))
PROPS["C07"]["level_text"] = PROPS["C07"].get("level_text", "") + " + stress/seqburst (bursts of back-to-back publishes to a fast Async+Sequential handler: the goroutines reach the ticket lock while the turn is being handed on; no wake-up may be lost)."

# C08 under concurrency: the wait for a Sequential handler's mutex (history of the defect repaired by fix 1feea95)
PROPS["C08"]["parts"].append(dict(name="stress08seqcancel", domain="stress", domain_module="stress", gen=stress.make_gen("seqcancel"), n_quick=4, n_thorough=40, chunk=2, jobs=4, timeout=900))
PROPS["C08"]["level_text"] = PROPS["C08"].get("level_text", "") + (" Under concurrency (M2): every step that enters a synchronous handler is taken by a goroutine whose publish context is live, "
    "also after a wait for the handler's Sequential mutex (theorem sync_entry_only_if_live; the context is checked again once the mutex is held).")

# what the parts added after the second and third rounds of seeded changes exercise (appended to the evidence's rule text)
_EXTRA_RULE = {
 "C02": " + stress/regs: real concurrency, 8 handlers, overlapping Unsubscribes of a random subset while two publishers publish, judged at quiescence (count, exactly-once for kept handlers, nothing for removed ones); two conc types share a registry shard, Clear of an unsubscribed colliding type; option values shared between subscriptions",
 "C03": " + stress/waiters (several goroutines in Wait at once, nested async publishes) + pubstore03 (publish, also from inside a Replay callback, through a bus over the real memory/SQLite/durable-streams stores: must not block) + racestress with three concurrent waiters",
 "C04": " + stress/once: publishers racing for one Once handler under every Async/Sequential/filter mix, incl. 400 x 16-publisher rounds on Once+Async+Sequential",
 "C06": " + bus06 (sequential machine, mostly Async handlers on persistent buses with persistence timeout, sometimes the OpenTelemetry adapter) + stress/waiters",
 "C07": " + bus07 (mostly Sequential handlers, panicking bodies) + stress/seq (no overlap, exactly once, per-publisher order under real Async dispatch, one invocation panics)",
 "C08": " + the OpenTelemetry adapter as Observability in half of the cases with observability + stress/hooks (overlapping publishes and a before-hook that publishes: every hook exactly once per publish)",
 "C09": " + pubstore09 (bus over the three REAL stores, persistence timeout set, options in either order, publish and publish-from-a-Replay-callback, the handler reads the log) + racepub09 (real concurrent publishers)",
 "C12": " + a store without ReadStream that pages by two + an event type with a pointer-receiver EventTypeName published by value + racepub12 (saved offset never decreases under real concurrent publishers)",
 "C13": " + flaky13: the real durable-streams store behind a gateway that loses the acknowledgement of an append the server has stored (one report, no second attempt, the publish still delivers)",
 "C14": " + concappend (concurrent appenders on one handle, close, reopen: every acknowledged event at its acknowledged offset) + saveretry (a failed SaveOffset retried with the same offset reaches the database)",
 "C10": " + limits up to MaxInt64, instances closed and re-created out of order, every operation under its own context cancelled on return, zone offsets with a seconds part, numeric-looking type names",
 "C11": " + Replay on a bus that has published itself after others appended behind its back, a second Replay started from the callback of the first",
 "C16": " + rings of raw upcasters returning each other's sources over an acyclic registered graph + chains whose first step races a ClearUpcasts",
 "C17": " + upcasters racing a ClearUpcasts against their own chain + the same stored event object replayed again after the registry changed",
 "C18": " ; every write of value index v writes one canonical entity (omitempty slices, nested pointers, maps with value-dependent keys, a field with a pointer-receiver JSON codec) and the dump checks deep equality with it",
 "C05": " + panic values whose Error()/String() panic (typed nil error), SetPanicHandler between publishes, a nil subscribe option, option values shared between subscriptions + livepanic05 (the handler of a resumable subscription, synchronous or Async+Sequential, memory or SQLite store, panics on a live event: contained, the later handler and every later publish are served, Wait returns)",
 "C01": " + 46 types hitting all 32 shards (first/last shard favoured), an event type that is json.RawMessage itself and one published as a pointer, once handlers whose body swaps a registration of their own type, nil subscribe option",
}
# parts added in the third session (rounds 6 and 7, unexercised API, automatic mutants)
_EXTRA_RULE3 = {
 "C01": " + filter predicates typed by an interface the event type implements, and by `any`",
 "C03": " + livechain03 (handlers of resumable subscriptions that publish while handling a live event, alone and as a ping-pong of two subscriptions, memory and SQLite stores: nothing may block)",
 "C08": " + context-aware handlers must receive a context that can be cancelled whenever their publish context can, and that is cancelled when the handler cancels its publish + stress/seqcancel (a publisher waits for a busy Sequential handler's mutex while its context is cancelled: the handler must not be started for it)",
 "C10": " + stores built with every construction option (logger, metrics hook, own HTTP client, timeout, construction context cancelled afterwards)",
 "C12": " + offsets in an explicit SubscriptionStore of their own (WithSubscriptionStore before or after WithStore; the event store's own offset table must stay empty) + cancelresume (catch-up over the real SQLite store cancelled inside a page) + panicresume (the handler dies while event k is replayed) + livechain",
 "C13": " + pubdeadnotify (a persistence error handler that publishes the next record on the same bus)",
 "C14": " + every reopening is repeated without the automatic migration",
 "C17": " + the error handler handed to New as WithUpcastErrorHandler; raw upcasters on typed source names over payloads followed by garbage",
 "C18": " + a collection registered under an explicit entity type name (NewTypedCollectionWithType), Get checked against All via CompositeKey",
 "C19": " + WithAutoTimestamp (alone, and before / after an explicit timestamp); the headers of every helper-built message are compared with what the options said",
 "C20": " + injected append failures that hang until the persistence timeout return the context's error, more often under the OpenTelemetry adapter",
}
for _p, _t in _EXTRA_RULE3.items():
    _EXTRA_RULE[_p] = _EXTRA_RULE.get(_p, "") + _t
for _p, _t in _EXTRA_RULE.items():
    PROPS[_p]["rule"] = (PROPS[_p].get("rule") or "") + _t
PROPS["C19"]["rule"] = PROPS["C19"]["rule"] + _EXTRA_RULE["C18"]

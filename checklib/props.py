"""Registry of the claimed properties: Lean module, correspondence parts, trusted base."""
from .domains import upcast, bus

COMMON_ASSUME = [
    "the hand-written Lean model equals the Go code only on the inputs the correspondence ran (differential testing, reported under coverage)",
]

PROPS = {
    "C16": dict(
        module="Ebu.Props.C16", ready=True,
        level_text="Proof: the cycle check is proved to decide reachability over the declared edges (soundness, completeness, termination of the recursion), acceptance is characterised exactly, acyclicity is an invariant of every sequence of register/clear/clearType, and apply is proved to terminate within |registry|+1 upcaster calls for EVERY registry and every choice of returned type names. All quantifiers unbounded. The model is tied to upcast.go by differential runs (exhaustive small registration sequences + random).",
        level_note="Trusted: Lean kernel + propext/Quot.sound; the correspondence harness; Go map/slice semantics as modelled (per-source registration order). Racing registrations are covered only through the lock-discipline facts of C03 (validation and insertion in one write-locked section), not by this check's sequential correspondence — partial for the 'schedules' quantifier.",
        parts=[dict(name="upcast16", domain="upcast", domain_module="upcast", gen=upcast.gen_c16, n_quick=250, n_thorough=12000)],
        rule="cases = exhaustive registration sequences over 3 names (length<=2 quick, <=3 thorough) + random sequences over up to 8 names with clears and raw upcasters returning undeclared types; non-trivial = a cycle was rejected or an upcast function ran; distinct = distinct implementation traces",
        trusted_base=["Go maps modelled as association by key with per-key registration order", "encoding/json round trip of []int payloads"],
        assumptions=COMMON_ASSUME + ["racing registrations: validation+insertion happen in one write-locked section (extracted lock facts, see C03); the LTS argument is sequential consistency of that lock"],
    ),
    "C17": dict(
        module="Ebu.Props.C17", ready=True,
        level_text="Proof: on success apply returns exactly the composition of the first-registered upcaster of each successive type (relational spec Chain), on any failure the original data and type, the error handler is called exactly once for a failing upcast function with that step's type and input; completeness for honest acyclic registries; replay passes offset/timestamp through. Unbounded over graphs, payloads and failure positions.",
        level_note="Trusted: Lean kernel + propext/Quot.sound; correspondence harness; payload transformation abstracted to 'append the upcaster tag' plus an untouched optional field (typed upcasters are exercised with real struct types so decode/encode staleness is visible); encoding/json.",
        parts=[dict(name="upcast17", domain="upcast", domain_module="upcast", gen=upcast.gen_c17, n_quick=300, n_thorough=15000)],
        rule="cases = chains, branches, several upcasters per source and random graphs over <=6 names (+ typed upcasters), one failing step injected at a random position, every type replayed; non-trivial = a chain of >=2 steps ran or the error handler fired; distinct = distinct implementation traces",
        trusted_base=["encoding/json round trip of []int payloads", "payload transformation abstracted to 'append the upcaster's tag'"],
        assumptions=COMMON_ASSUME,
    ),
}

BUS_TB = ["handler/filter/hook bodies are restricted to the action language of M1 (subscribe, unsubscribe, clear, clearAll, publish, cancel, panic, queries, readLog)",
          "async goroutines are run in spawn order at `drain` (one legal schedule, forced through the verif hook); other schedules are C02/C04/C06/C07's interleaving model",
          "Go maps modelled as functions from keys to slices; reflect.Value.Pointer() identity modelled by `hid`", "encoding/json of the harness event structs"]

def _bus(prop, module, rule, nq=400, nt=20000):
    return dict(module=module,
                parts=[dict(name="bus" + prop, domain="bus", domain_module="bus", gen=bus.make_gen(prop), n_quick=nq, n_thorough=nt, chunk=128)],
                rule=rule, trusted_base=BUS_TB, assumptions=COMMON_ASSUME)

PROPS.update({
    "C01": _bus("C01", "Ebu.Props.C01", "random programs over 40 Go event types (12 pairs share one of the 32 shards; every case uses at least one colliding pair), 12 handler identities, all Once/Async/Sequential/filter/context-aware combinations, handler bodies nested to depth 3 that subscribe/unsubscribe/clear/publish/cancel/panic; non-trivial = >=2 handler entries and a re-entrant registry operation or query from inside a handler; distinct = distinct implementation traces"),
    "C05": _bus("C05", "Ebu.Props.C05", "as C01 with panicking bodies in ~half of the handlers and a panic handler set in 80% of cases; non-trivial = the panic handler fired or a panicking body ran next to other handlers"),
    "C08": _bus("C08", "Ebu.Props.C08", "as C01 with dead / fresh / inherited contexts, cancel actions inside handlers, all 16 hook combinations; non-trivial = hooks fired, a handler ran and a context was cancelled"),
    "C09": _bus("C09", "Ebu.Props.C09", "as C01 on a persistent bus: options in random order (WithStore anywhere, sometimes twice), unencodable events, store faults, readLog from inside handlers; non-trivial = a record was appended and a handler ran"),
    "C13": _bus("C13", "Ebu.Props.C13", "as C09 with a fault script failing ~35% of appends (including the first, and consecutive ones) and 20% unencodable events; non-trivial = an append failed or the persistence error handler fired"),
    "C20": _bus("C20", "Ebu.Props.C20", "as C01 with a recording Observability always installed, persistence in 70% of cases; non-trivial = at least 6 callback events"),
})

"""Build steps: regenerate facts from /repo, build Lean modules + driver, build the Go harness."""
import os, re, shutil, glob
from .common import *

def build_harness():
    """go build -tags verif of the harness against /repo's working tree. returns (ok, msg)"""
    os.makedirs(BUILD, exist_ok=True)
    # go.sum is the union of the repository's go.sum files (offline, nothing is fetched)
    sums = set()
    for p in [REPO + "/go.sum", REPO + "/otel/go.sum", REPO + "/stores/sqlite/go.sum", REPO + "/stores/durablestream/go.sum"]:
        if os.path.exists(p):
            sums.update(l for l in open(p).read().splitlines() if l.strip())
    extra = os.path.join(GOH, "go.sum.extra")
    if os.path.exists(extra):
        sums.update(l for l in open(extra).read().splitlines() if l.strip())
    with open(os.path.join(GOH, "go.sum"), "w") as f:
        f.write("\n".join(sorted(sums)) + "\n")
    if os.path.exists(HARNESS):
        os.remove(HARNESS)       # never run a stale binary
    rc, so, se = run(["go", "build", "-tags", "verif", "-o", HARNESS, "."], cwd=GOH, env=goenv(), timeout=900)
    if rc != 0:
        return False, (so + se)[-4000:]
    return True, ""

def build_extract():
    if not os.path.isdir(GOX):
        return True, ""
    if os.path.exists(EXTRACT):
        os.remove(EXTRACT)
    rc, so, se = run(["go", "build", "-o", EXTRACT, "."], cwd=GOX, env=goenv(), timeout=600)
    if rc != 0:
        return False, (so + se)[-4000:]
    return True, ""

def regen_facts():
    """delete and regenerate lean/Ebu/Generated/*.lean from /repo's current source. returns (ok,msg)"""
    gen = os.path.join(LEAN, "Ebu", "Generated")
    os.makedirs(gen, exist_ok=True)
    for f in glob.glob(os.path.join(gen, "*.lean")):
        os.remove(f)
    if not os.path.isdir(GOX):
        return True, ""
    ok, msg = build_extract()
    if not ok:
        return False, "extractor build failed: " + msg
    rc, so, se = run([EXTRACT, "-repo", REPO, "-out", gen], env=goenv(), timeout=300)
    if rc != 0:
        return False, "extractor failed: " + (so + se)[-4000:]
    return True, so

def lake_build(targets, timeout=3000):
    """lake build of the given targets; returns (ok, output)"""
    rc, so, se = run(["lake", "build"] + list(targets), cwd=LEAN, timeout=timeout)
    return rc == 0, so + se

def failed_decls(lake_output):
    """names of the declarations lake reported errors in (best effort: file:line -> nearest theorem)"""
    errs = []
    for m in re.finditer(r"error: ([^\s:]+\.lean):(\d+):(\d+): (.*)", lake_output):
        errs.append((m.group(1), int(m.group(2)), m.group(4)))
    out = []
    for path, line, msg in errs:
        p = path if os.path.isabs(path) else os.path.join(LEAN, path)
        name = "?"
        try:
            src = open(p).read().splitlines()
            for i in range(min(line, len(src)) - 1, -1, -1):
                mm = re.match(r"\s*(?:private\s+|protected\s+)?(?:theorem|lemma|def|example|instance)\s+(\S+)?", src[i])
                if mm:
                    name = mm.group(1) or "example"
                    break
        except OSError:
            pass
        out.append({"file": os.path.relpath(p, LEAN), "line": line, "decl": name, "msg": msg[:300]})
    return out

RACESTRESS = os.path.join(BUILD, "racestress")

def build_racestress():
    """the C03 witness hunter, built with the race detector against /repo's working tree"""
    if os.path.exists(RACESTRESS):
        os.remove(RACESTRESS)
    rc, so, se = run(["go", "build", "-race", "-tags", "verif", "-o", RACESTRESS, "./cmd/racestress"], cwd=GOH, env=goenv(), timeout=1200)
    if rc != 0:
        return False, (so + se)[-4000:]
    return True, ""

#!/bin/bash
# Build everything the checks need from files on disk only (offline).
set -e
cd "$(dirname "$0")"
exec python3 -m checklib.setup
